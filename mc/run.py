"""CLI:  /venv/bin/python -m mc.run C06 --tier quick|thorough [--replay FILE]

exit 0: property held on everything explored (KNOWN-FINDING lines possible)
exit 1: violation(s); a line "VIOLATION property=<id> replay=<path>" each
exit 3: harness error (never a verdict)
"""
import argparse
import importlib
import json
import os
import sys

_ENV = {'OMP_NUM_THREADS': '1', 'OPENBLAS_NUM_THREADS': '1', 'MKL_NUM_THREADS': '1',
        'PYTHONHASHSEED': '0', 'PYTHONDONTWRITEBYTECODE': '1',
        'NUMBA_DISABLE_JIT': '0'}


def _reexec_if_needed():
    if all(os.environ.get(k) == v for k, v in _ENV.items()):
        return
    env = dict(os.environ)
    env.update(_ENV)
    os.execve(sys.executable, [sys.executable, '-m', 'mc.run'] + sys.argv[1:], env)


def bind_teneva():
    src = os.environ.get('TENEVA_SRC', '/repo')
    sys.path.insert(0, src)
    import warnings
    warnings.filterwarnings('ignore', category=SyntaxWarning)
    import teneva
    here = os.path.realpath(os.path.dirname(os.path.dirname(teneva.__file__)))
    if here != os.path.realpath(src):
        print('HARNESS-ERROR: teneva imported from %s, expected %s' % (here, src))
        sys.exit(3)
    return teneva


def main():
    _reexec_if_needed()
    ap = argparse.ArgumentParser()
    ap.add_argument('prop', nargs='?')
    ap.add_argument('--tier', default=os.environ.get('VERIF_TIER', 'quick'),
                    choices=['quick', 'thorough'])
    ap.add_argument('--replay')
    ap.add_argument('--selfcheck', action='store_true')
    ap.add_argument('--cap', type=float, default=None)
    ap.add_argument('--nproc', type=int, default=None)
    a = ap.parse_args()
    os.chdir(os.path.dirname(os.path.dirname(os.path.abspath(__file__))))
    sys.path.insert(0, os.getcwd())
    bind_teneva()
    from mc import engine
    if a.selfcheck:
        import glob
        n = 0
        for f in sorted(glob.glob('mc/props/c[0-9][0-9].py')):
            m = importlib.import_module('mc.props.' + os.path.basename(f)[:-3])
            assert m.ID and m.CHECKERS and m.LEVEL and m.RULE
            n += 1
        json.load(open('MANIFEST.json'))
        print('selfcheck ok: %d property modules' % n)
        return 0
    pid = a.prop.upper()
    mod = importlib.import_module('mc.props.' + pid.lower())
    seed = int(os.environ.get('VERIF_SEED', '0') or 0)
    if a.replay:
        rep = json.load(open(a.replay))
        case = rep['case']
        for h in rep.get('history', [])[:-1]:            # a violation found in a sequential pass: its history first, in this process
            engine.run_case(mod, h['_checker'], h)
        r = engine.run_case(mod, case['_checker'], case)
        hit = [v for v in r.viol if v['clause'] == rep['clause']] or r.viol
        if hit:
            print('VIOLATION property=%s replay=%s' % (pid, a.replay))
            print('  clause=%s detail=%s' % (hit[0]['clause'], str(hit[0]['detail'])[:600]))
            return 1
        print('replay: no violation (clauses checked: %s)' % dict(r.clauses))
        return 0
    cap = a.cap
    if cap is None:
        cap = float(os.environ.get('VERIF_CAP_S', '0') or 0) or None
    print('[%s] tier=%s seed=%d src=%s' % (pid, a.tier, seed,
                                           os.environ.get('TENEVA_SRC', '/repo')))
    try:
        total, meta = engine.explore(mod, a.tier, seed, nproc=a.nproc, cap_s=cap)
    except RuntimeError as ex:
        print('HARNESS-ERROR: %s' % ex)
        return 3
    rc = engine.report(mod, a.tier, seed, total, meta)
    print('[%s] evals=%d nontrivial=%d states=%d transitions=%d skipped=%s '
          'violations=%d exhaustive=%s wall=%.1fs -> exit %d' % (
              pid, total.evals, len(total.nontriv), len(total.states), total.trans,
              sum(total.skipped.values()), len(total.viol), meta['exhaustive'],
              meta['wall'], rc))
    return rc


if __name__ == '__main__':
    sys.exit(main())
