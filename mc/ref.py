"""Reference models: boring, independent of the functions under test."""
import itertools
import math

import numpy as np

U = 2.0 ** -53


def dense(Y):
    """Dense tensor of a core list by explicit left-to-right chain (float)."""
    Z = np.asarray(Y[0], dtype=float)[0]            # (n0, r1)
    for G in Y[1:]:
        G = np.asarray(G, dtype=float)
        Z = np.einsum('...a,anb->...nb', Z, G)
    return Z[..., 0]


def dense_abs(Y):
    return dense([np.abs(G) for G in Y])


def dense_int(Y):
    """Exact dense tensor with Python integers (object dtype)."""
    Z = np.asarray(Y[0]).astype(object)[0]
    for G in Y[1:]:
        G = np.asarray(G).astype(object)
        r1, n, r2 = G.shape
        new = np.empty(Z.shape[:-1] + (n, r2), dtype=object)
        for idx in np.ndindex(*Z.shape[:-1]):
            v = Z[idx]
            for j in range(n):
                for b in range(r2):
                    s = 0
                    for a in range(r1):
                        s += v[a] * G[a, j, b]
                    new[idx + (j, b)] = s
        Z = new
    return Z[..., 0]


def chain_bound(Y, extra=0):
    """A-priori rounding bound constant for sums of products over the chain."""
    s = sum(int(G.shape[0]) + int(G.shape[1]) for G in Y) + int(Y[-1].shape[2]) + extra
    return 8.0 * s * U


def unfold_sv(A, k):
    """Singular values of the k-th unfolding (first k modes as rows), k>=1."""
    A = np.asarray(A, dtype=float)
    m = int(np.prod(A.shape[:k]))
    M = A.reshape(m, -1)
    return np.linalg.svd(M, compute_uv=False)


def tails(s):
    """tails[q] = sqrt(sum_{i>=q} s_i^2), q = 0..len(s)."""
    s2 = np.asarray(s, dtype=float) ** 2
    t = np.concatenate([np.cumsum(s2[::-1])[::-1], [0.]])
    return np.sqrt(t)


def wellformed(Y, shape=None):
    """Structural validator for a TT-tensor; returns None or a reason."""
    if not isinstance(Y, list) or len(Y) == 0:
        return 'not a non-empty list'
    prev = 1
    for k, G in enumerate(Y):
        if not isinstance(G, np.ndarray):
            return 'core %d is not an ndarray' % k
        if G.ndim != 3:
            return 'core %d has ndim %d' % (k, G.ndim)
        if G.dtype.kind != 'f':
            return 'core %d dtype %s' % (k, G.dtype)
        if G.shape[0] != prev:
            return 'core %d left rank %d != %d' % (k, G.shape[0], prev)
        if min(G.shape) < 1:
            return 'core %d has empty dimension %s' % (k, G.shape)
        if shape is not None and G.shape[1] != shape[k]:
            return 'core %d mode size %d != %d' % (k, G.shape[1], shape[k])
        prev = G.shape[2]
    if prev != 1:
        return 'last rank %d' % prev
    if shape is not None and len(shape) != len(Y):
        return 'dimension %d != %d' % (len(Y), len(shape))
    return None


def finite(Y):
    return all(np.all(np.isfinite(G)) for G in Y)


def core_bytes(Y):
    return b'|'.join(np.ascontiguousarray(G).tobytes() + str(G.shape).encode() for G in Y)


def bits_le(i, q):
    return [(i >> b) & 1 for b in range(q)]


def tt_dot(A, B):
    """<A, B> by an explicit left-to-right chain (no dense tensor; for long trains with small ranks)."""
    v = np.ones((1, 1))
    for G, H in zip(A, B):
        v = np.einsum('ab,anc,bnd->cd', v, G, H)
    return float(v[0, 0])


def tt_entries(Y, I):
    """Entries at the rows of I by explicit chains."""
    out = np.empty(len(I))
    for j, idx in enumerate(I):
        v = np.ones((1, 1))
        for G, i in zip(Y, idx):
            v = v @ G[:, int(i), :]
        out[j] = v[0, 0]
    return out


def tt_norm_diff(A, B):
    """||A - B||_F for two trains of the same shape: block cores of the difference, then an own left-to-right QR sweep
    (accurate to rounding of |A| + |B|; no dense tensor, no cancellation of squared norms)."""
    d = len(A)
    D = []
    for k, (G, H) in enumerate(zip(A, B)):
        if k == 0:
            D.append(np.concatenate([G, -H], axis=2))
        elif k == d - 1:
            D.append(np.concatenate([G, H], axis=0))
        else:
            r1, n, r2 = G.shape
            s1, _, s2 = H.shape
            Z = np.zeros((r1 + s1, n, r2 + s2))
            Z[:r1, :, :r2] = G
            Z[r1:, :, r2:] = H
            D.append(Z)
    R = np.ones((1, 1))
    for k in range(d):
        G = np.tensordot(R, D[k], 1)
        r1, n, r2 = G.shape
        Q, R = np.linalg.qr(G.reshape(r1 * n, r2))
    return float(np.linalg.norm(R))
