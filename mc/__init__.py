"""Bounded exhaustive explorer for the teneva properties (see /verif/DESIGN.md).

Importing the package binds `teneva` to the tree under test: ${TENEVA_SRC:-/repo} is put
first on sys.path (pure Python, nothing to build), so every check - including helper
subprocesses - runs the current working tree."""
import os
import sys
import warnings

_SRC = os.environ.get('TENEVA_SRC', '/repo')
if _SRC not in sys.path[:1]:
    sys.path.insert(0, _SRC)
warnings.filterwarnings('ignore', category=SyntaxWarning)
os.environ.setdefault('OMP_NUM_THREADS', '1')
os.environ.setdefault('OPENBLAS_NUM_THREADS', '1')
os.environ.setdefault('MKL_NUM_THREADS', '1')
