"""Bounded exhaustive explorer for the teneva properties (see /verif/DESIGN.md)."""
