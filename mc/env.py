"""Controlled environment objects: everything nondeterministic or external that
the library talks to is one of these, so that the explorer decides the answers."""
import copy as _copy

import numpy as np


class HarnessError(Exception):
    pass


class RecordingObjective:
    """Objective for cross: table lookup on a dense array, records every batch.

    none_at: 1-based call number at which None is returned (or None)."""

    def __init__(self, table, none_at=None, ret='float64'):
        self.table = np.asarray(table, dtype=float)
        self.none_at = none_at
        self.ret = ret               # form of the returned batch: float64 / float32 / list / int (integer-valued tables)
        self.batches = []          # copies of what was received
        self.raw_types = []
        self.calls = 0

    def __call__(self, I):
        self.calls += 1
        self.raw_types.append((type(I).__name__, getattr(I, 'dtype', None),
                               getattr(I, 'shape', None)))
        J = np.array(I, copy=True)
        self.batches.append(J)
        if self.none_at is not None and self.calls == self.none_at:
            return None
        # tolerant lookup: oracle checks the domain separately
        K = np.asarray(J)
        if K.ndim != 2 or K.shape[1] != self.table.ndim or K.dtype.kind not in 'iu':
            return np.zeros(len(K))
        ok = np.all((K >= 0) & (K < np.array(self.table.shape)), axis=1)
        out = np.zeros(len(K))
        if ok.any():
            out[ok] = self.table[tuple(K[ok].T)]
        if self.ret == 'float32':
            return out.astype(np.float32)
        if self.ret == 'list':
            return [float(x) for x in out]
        if self.ret == 'int':
            return out.astype(np.int64)
        return out


class ScriptedCallback:
    """cb(Y, info, opts): snapshots the per-sweep state; True at sweep true_at."""

    def __init__(self, true_at=None, answer=True):
        self.true_at = true_at
        self.answer = answer
        self.snaps = []

    def __call__(self, Y, info, opts=None):
        snap = {'Y': [G.copy() for G in Y],
                'info': {k: v for k, v in info.items()
                         if isinstance(v, (int, float, str, bool, type(None), np.integer, np.floating))},
                'Yold': ([G.copy() for G in opts['Yold']]
                         if isinstance(opts, dict) and opts.get('Yold') is not None else None)}
        self.snaps.append(snap)
        if self.true_at is not None and len(self.snaps) == self.true_at:
            return self.answer
        return None


class RecordingCache(dict):
    """dict that counts the three operations the library uses."""

    def __init__(self, *a, **k):
        super().__init__(*a, **k)
        self.n_contains = 0
        self.n_get = 0
        self.n_set = 0
        self.set_keys = []

    def __contains__(self, k):
        self.n_contains += 1
        return super().__contains__(k)

    def __getitem__(self, k):
        self.n_get += 1
        return super().__getitem__(k)

    def __setitem__(self, k, v):
        self.n_set += 1
        self.set_keys.append(k)
        super().__setitem__(k, v)


class Exhausted(Exception):
    """Scripted generator ran past its script; .menu lists the legal answers."""

    def __init__(self, menu, what):
        super().__init__(what)
        self.menu = menu
        self.what = what


class ScriptedGenerator:
    """Duck-typed numpy Generator handed in through `seed`.

    Records every draw; answers `choice`/`permutation`/`shuffle` from the script
    (a list of answers). Past the end of the script: raises Exhausted(menu) when
    `explore` is set, else answers with the default (first legal answer)."""

    _ALLOWED = {'choice', 'shuffle', 'permutation', 'uniform', 'normal', 'integers',
                'random'}

    def __init__(self, script=(), explore=False, fill=0.5):
        self.script = list(script)
        self.pos = 0
        self.log = []
        self.explore = explore
        self.fill = fill

    def __getattr__(self, name):
        raise HarnessError('library used an unmodelled generator method: ' + name)

    def _next(self, menu, what):
        if self.pos < len(self.script):
            a = self.script[self.pos]
            self.pos += 1
            return a
        if self.explore:
            raise Exhausted(menu, what)
        self.pos += 1
        return None

    def choice(self, a, size=None, replace=True, p=None, axis=0, shuffle=True):
        n = int(a) if np.isscalar(a) else len(a)
        pv = None if p is None else np.array(p, dtype=float, copy=True)
        cnt = 1 if size is None else int(np.prod(size))
        self.log.append(('choice', n, size, replace, pv))
        menu = ('choice', n, cnt, bool(replace))
        ans = self._next(menu, 'choice')
        if ans is None:
            ans = list(range(cnt)) if not replace else [0] * cnt
        ans = [int(x) for x in (ans if isinstance(ans, (list, tuple)) else [ans])]
        if len(ans) != cnt or any(x < 0 or x >= n for x in ans) or \
                (not replace and len(set(ans)) != cnt):
            raise HarnessError('bad scripted answer %r for %r' % (ans, menu))
        vals = np.array(ans if np.isscalar(a) else [a[x] for x in ans])
        if size is None:
            return vals[0]
        return vals.reshape(size)

    def permutation(self, x, axis=0):
        n = int(x) if np.isscalar(x) else len(x)
        self.log.append(('permutation', n))
        ans = self._next(('perm', n), 'permutation')
        if ans is None:
            ans = list(range(n))
        if sorted(ans) != list(range(n)):
            raise HarnessError('bad scripted permutation %r' % (ans,))
        base = np.arange(n) if np.isscalar(x) else np.asarray(x)
        return base[list(ans)].copy()

    def shuffle(self, x, axis=0):
        n = len(x)
        self.log.append(('shuffle', n))
        ans = self._next(('perm', n), 'shuffle')
        if ans is None:
            ans = list(range(n))
        if sorted(ans) != list(range(n)):
            raise HarnessError('bad scripted permutation %r' % (ans,))
        x[...] = np.array(x, copy=True)[list(ans)]

    def uniform(self, low=0.0, high=1.0, size=None):
        self.log.append(('uniform', low, high, size))
        lo, hi = np.asarray(low, dtype=float), np.asarray(high, dtype=float)
        v = lo + (hi - lo) * self.fill
        if size is None:
            return v
        return np.broadcast_to(v, size if isinstance(size, tuple) else
                               (tuple(size) if hasattr(size, '__len__') else (int(size),))).copy()

    def normal(self, loc=0.0, scale=1.0, size=None):
        self.log.append(('normal', loc, scale, size))
        if size is None:
            return loc + scale * self.fill
        shp = size if isinstance(size, tuple) else (
            tuple(size) if hasattr(size, '__len__') else (int(size),))
        n = int(np.prod(shp))
        # deterministic, non-degenerate fill
        v = ((np.arange(n) * 7919) % 13 - 6.0) / 4.0
        return (loc + scale * v).reshape(shp)


def rng_state_key():
    st = np.random.get_state()
    return (st[0], st[1].tobytes(), st[2], st[3], st[4])


class GlobalRngGuard:
    def __enter__(self):
        self.before = rng_state_key()
        return self

    def __exit__(self, *a):
        self.after = rng_state_key()
        self.unchanged = (self.before == self.after)
        return False
