"""C10 - results depend only on arguments and seed, not on global state or history.

Mode G over call histories: every sequence of <= 2 (thorough: 3) calls from a finite
alphabet (seeded functions x seeds, deterministic functions, the functions with mutable
default dictionaries called with the defaults, perturbations of the global NumPy
generator) is executed in a freshly forked worker; every transition is compared
bit-for-bit with the same call in a FRESH INTERPRETER (spawned once per call, twice to
establish reproducibility) and the global generator state is compared before/after."""
import hashlib
import itertools
import json
import os
import subprocess
import sys
import warnings
from concurrent.futures import ThreadPoolExecutor

import numpy as np
import teneva

from mc import ref, space
from mc.engine import Res, Stratum, digest
from mc.env import rng_state_key

ID = 'C10'
REGISTERED = True
NONDETERMINISM_IS_VIOLATION = True       # see engine: a case that differs between two fresh processes is a violation of this property, not a harness error
LEVEL = 'model_checking'
TECHNIQUE = ('explicit-state search over call histories (all sequences up to length 2/3 over a finite alphabet of library '
             'calls and global-generator perturbations), each transition compared bit-for-bit with a fresh-interpreter '
             'baseline; global RandomState snapshot around every call; twin generator objects under different global states')
LEVEL_TEXT = ('a history-dependent result, a hidden use of the global generator or residue in a default dictionary shows as a '
              'bitwise difference between a call after some history and the same call in a fresh interpreter; all histories '
              'of the bounded length over the alphabet are executed, which a test calling each function once cannot do')
LEVEL_NOTE = ('bounded: alphabet of ~70 calls with fixed small arguments, seeds {0,1,42} and generator objects, history '
              'length 2 (quick) / 3 (thorough, reduced alphabet in the third position); assumes one BLAS thread and the same '
              'binary are bit-reproducible, which is itself checked (two independent baselines per call)')
RULE = ('states = (history of calls, observable residue); transitions = calls; all sequences over the alphabet up to the bound. '
        'Non-trivial: a history in which a seeded / default-dict call follows a call that could have left residue (another '
        'library call or a perturbation of the global generator); distinct = the history.')
ASSUMPTIONS = ['info["t"] (wall time) is excluded from every comparison',
               'rand_custom with its default sampler (np.random.randn) is random by design and takes no seed: not in the alphabet',
               'bit-reproducibility across processes with OMP/OPENBLAS threads = 1 (checked per call, violations of it are reported as notes, not alarms)']

SEEDS = (0, 1, 42)


# ------------------------------------------------------------------------------------------
# observation -> canonical bytes

def canon(x):
    if isinstance(x, np.ndarray):
        return ('A', x.dtype.str, list(x.shape), hashlib.blake2b(np.ascontiguousarray(x).tobytes(), digest_size=8).hexdigest())
    if isinstance(x, (list, tuple)):
        return ('L', [canon(v) for v in x])
    if isinstance(x, dict):
        return ('D', [[k, canon(v)] for k, v in sorted(x.items(), key=lambda kv: str(kv[0])) if k != 't'])
    if isinstance(x, (float, np.floating)):
        return ('F', float(x).hex())
    if isinstance(x, (int, np.integer, bool, np.bool_)):
        return ('I', int(x))
    if x is None or isinstance(x, str):
        return ('S', x)
    return ('R', repr(x))


def obs(x):
    return digest(canon(x))


# ------------------------------------------------------------------------------------------
# the alphabet

def _Y(tag=0, shape=(3, 2, 3), r=2):
    return space.tt(list(shape), [1] + [r] * (len(shape) - 1) + [1], 'gen', 0, tag=60 + tag)


def _Ypos():
    return space.tt([3, 2, 3], [1, 2, 2, 1], 'genpos', 0, tag=61)


def _table():
    return ref.dense(_Y(1))


def _f(I):
    T = _table()
    return T[tuple(np.asarray(I).T)]


def _grid():
    return space.grid_array([3, 2, 3])


def _seeded(seed):
    """name -> callable(seed) for every function that takes a seed."""
    n = [3, 2, 3]
    return {
        'rand': lambda s: teneva.rand(n, 2, seed=s),
        'rand_norm': lambda s: teneva.rand_norm(n, [1, 2, 3, 1], seed=s),
        'rand_stab': lambda s: teneva.rand_stab(n, 2, noise=1e-3, seed=s),
        'sample': lambda s: teneva.sample(_Ypos(), 5, seed=s),
        'sample_square': lambda s: teneva.sample_square(_Y(2), 4, unique=False, seed=s),
        'sample_square_unique': lambda s: teneva.sample_square(_Y(2), 3, unique=True, seed=s),
        # most of the cells requested: the first batch of draws cannot contain enough distinct rows, the sampler restarts
        'sample_square_unique.restart': lambda s: teneva.sample_square(_Y(2), 15, unique=True, seed=s, m_fact=1),
        'sample_square.float_cf': lambda s: teneva.sample_square(_Y(2), 3, unique=False, seed=s, float_cf=2),
        'sample_lhs': lambda s: teneva.sample_lhs(n, 7, seed=s),
        'sample_rand': lambda s: teneva.sample_rand(n, 6, seed=s),
        'sample_rand_poi': lambda s: teneva.sample_rand_poi([-1., 0., 2.], [1., 3., 5.], 4, seed=s),
        'sample_tt': lambda s: teneva.sample_tt(n, 2, seed=s),
        'anova': lambda s: teneva.anova(_grid(), _f(_grid()), 2, 1, 1e-3, seed=s),
        'anova2': lambda s: teneva.anova(_grid(), _f(_grid()), 3, 2, 1e-3, seed=s),
        'anova2.cap': lambda s: teneva.anova(space.grid_array([9, 9, 9])[::7], np.sin(space.grid_array([9, 9, 9])[::7] @ np.array([1.0, 0.3, 0.7])), 2, 2, 1e-3, seed=s),
        # second-order models on OTHER training sets that share (mode, index) pairs with the one above
        'anova2.sub': lambda s: teneva.anova(_grid()[::2], _f(_grid()[::2]) * 2.0 + 1.0, 2, 2, 1e-3, seed=s),
        'anova2.perm': lambda s: teneva.anova(_grid()[::-1], np.sin(_grid()[::-1] @ np.array([1.0, 2.0, 0.5])), 3, 2, 0., seed=s),
        'core_qr_rand': lambda s: teneva.core_qr_rand(_Y(3)[1], 2, True, seed=s),
        'core_qr_rand.rtl': lambda s: teneva.core_qr_rand(_Y(3)[1], 1, False, seed=s),
        'cross_act.dr2': lambda s: teneva.cross_act(lambda X: X[:, 0] * X[:, 1] + 1., [_Y(5), _Y(6)], _Y(7, r=1), e=1e-6,
                                                    nswp=2, dr=2, dr2=1, seed=s),
        'sample_func.prepared': lambda s: teneva.sample_func(teneva.orthogonalize(_Y(4, (3, 3)), 0), seed=s, cores_are_prepared=True),
        'sample_func': lambda s: teneva.sample_func(_Y(4, (3, 3)), seed=s),
        'cross_act': lambda s: teneva.cross_act(lambda X: X[:, 0] * X[:, 1] + 1., [_Y(5), _Y(6)], _Y(7, r=1), e=1e-6,
                                                nswp=2, dr=2, seed=s),
    }


def _variants():
    """The same seeded functions with OTHER arguments and the SAME seed: anything remembered between calls under a key that leaves
    out part of the arguments (a memo keyed by the seed, by the shape, by the sample count ...) shows up when a variant precedes the
    base call or the other way round."""
    n2 = [2, 3, 2, 2]
    g2 = space.grid_array([3, 2, 3])[::-1]
    return {
        'rand.alt(seed=0)': lambda: teneva.rand(n2, 3, seed=0),
        'rand.alt_rank(seed=0)': lambda: teneva.rand([3, 2, 3], 3, seed=0),
        'rand_norm.alt(seed=0)': lambda: teneva.rand_norm([3, 2, 3], [1, 2, 3, 1], m=1., s=2., seed=0),
        'sample.alt(seed=0)': lambda: teneva.sample(space.tt([3, 2, 3], [1, 2, 2, 1], 'genpos', 0, tag=77), 5, seed=0),
        'sample.alt_m(seed=0)': lambda: teneva.sample(_Ypos(), 6, seed=0),
        'sample_lhs.alt(seed=0)': lambda: teneva.sample_lhs([3, 2, 3], 8, seed=0),
        'sample_lhs.alt_n(seed=0)': lambda: teneva.sample_lhs([3, 3, 2], 7, seed=0),
        'sample_rand.alt(seed=0)': lambda: teneva.sample_rand([2, 3, 3], 6, seed=0),
        'sample_tt.alt(seed=0)': lambda: teneva.sample_tt([3, 2, 3], 1, seed=0),
        'sample_square.alt(seed=0)': lambda: teneva.sample_square(_Y(3), 4, unique=False, seed=0),
        'anova.alt(seed=0)': lambda: teneva.anova(g2, _f(g2) * 3.0 - 1.0, 2, 1, 1e-3, seed=0),
        'sample_func.alt(seed=0)': lambda: teneva.sample_func(_Y(5, (3, 3)), seed=0),
    }


def _deterministic():
    grid = _grid()
    X = teneva.ind_to_poi(grid, -1., 1., 3, 'cheb')
    return {
        'truncate': lambda: teneva.truncate(teneva.add(_Y(1), _Y(1)), 1e-8),
        'truncate.cap': lambda: teneva.truncate(space.tt([9, 9, 9], [1, 9, 9, 1], 'gen', 0, tag=71), 1e-10, 2),
        'truncate.cap.svd': lambda: teneva.truncate(space.tt([9, 9, 9], [1, 9, 9, 1], 'gen', 0, tag=71), 1e-10, 2, is_eigh=False),
        'matrix_svd.cap': lambda: list(teneva.matrix_svd(space.core('gen', 1, 16, 40, 0, 0, 72)[0], 1e-10, 3)),
        'matrix_skeleton.cap': lambda: list(teneva.matrix_skeleton(space.core('gen', 1, 40, 16, 0, 0, 73)[0], 1e-10, 3)),
        'svd.cap': lambda: teneva.svd(ref.dense(space.tt([9, 8, 9], [1, 8, 8, 1], 'gen', 0, tag=74)), 1e-10, 2),
        'add.grow': lambda: teneva.add(space.tt([3, 4, 3, 4], [1, 2, 2, 2, 1], 'gen', 0, tag=75), space.tt([3, 4, 3, 4], [1, 5, 5, 5, 1], 'gen', 0, tag=76)),
        'orthogonalize': lambda: teneva.orthogonalize(_Y(1), 1),
        'svd': lambda: teneva.svd(_table(), 1e-8),
        'add_mul': lambda: teneva.mul(teneva.add(_Y(1), _Y(2)), 2.0),
        'get_many': lambda: teneva.get_many(_Y(1), grid),
        'norm_sum_mean': lambda: [teneva.norm(_Y(1)), teneva.sum(_Y(1)), teneva.mean(_Y(1))],
        'tt_to_qtt': lambda: teneva.tt_to_qtt(_Y(8, (4, 4))),
        'func_int': lambda: teneva.func_gets(teneva.func_int(_Y(1)), 4),
        'optima_tt': lambda: list(teneva.optima_tt(_Y(1), 5)),
        'maxvol': lambda: list(teneva.maxvol_rect(space.core('gen', 1, 7, 3, 0, 0, 65)[0], 1.1, 1, 2)),
        'anova_func': lambda: teneva.anova_func(X, _f(grid), 3, -1., 1.),
        'interface': lambda: teneva.interface(_Y(1), i=[1, 0, 2]),
        'cross.explicit_info': lambda: teneva.cross(_f, _Y(9, r=1), nswp=2, info={}, cache={}),
        'als.explicit_info': lambda: teneva.als(grid, _f(grid), _Y(9, r=2), nswp=2, info={}),
        # slices without any sample (first index of the first mode, last index of the last mode), kept as they are when skipping is allowed
        'als.skip': lambda: teneva.als(grid[(grid[:, 0] != 0) & (grid[:, 2] != 2)], _f(grid[(grid[:, 0] != 0) & (grid[:, 2] != 2)]), _Y(9, r=2), nswp=1, info={},
                                       allow_skip_cores=True),
        'als.skip3': lambda: teneva.als(grid[(grid[:, 0] != 2) & (grid[:, 1] != 1)], _f(grid[(grid[:, 0] != 2) & (grid[:, 1] != 1)]), _Y(9, r=3), nswp=3, info={},
                                        allow_skip_cores=True),
        'poly_const_delta': lambda: [teneva.poly([3, 2, 3], 1., 2), teneva.const([3, 2, 3], 2.), teneva.delta([3, 2, 3], [1, 1, 1], 3.)],
        'rand_custom.det': lambda: teneva.rand_custom([3, 2, 3], 2, lambda sz: np.arange(sz) * 0.5),
    }


def _quiet(fn):
    import contextlib
    import io
    with contextlib.redirect_stdout(io.StringIO()):
        return fn()


def _defaults():
    """Functions with mutable default dictionaries, called WITH the defaults, two parameterisations each."""
    grid = _grid()
    X = teneva.ind_to_poi(grid, -1., 1., 3, 'cheb')
    g3 = space.grid_array([3, 3, 3])
    y3 = np.cos(g3 @ np.array([1., 2., 3.])) * (1 + g3[:, 0] * g3[:, 2])
    return {
        'cross.default.m': lambda: teneva.cross(_f, _Y(9, r=1), m=40),
        'cross.default.nswp': lambda: teneva.cross(_f, _Y(9, r=1), nswp=2, dr_min=0, dr_max=0),
        'cross.default.e_cache': lambda: teneva.cross(_f, _Y(9, r=2), e=1e-3, nswp=3, cache={}),
        # heavy residue: many cache hits, many sweeps, validation data; light victims: tiny runs that any stale counter upsets
        'cross.default.cache_long': lambda: teneva.cross(_f, _Y(9, r=2), nswp=8, cache={}, m_cache_scale=10 ** 6, dr_min=0, dr_max=0,
                                                         I_vld=_grid()[::3], y_vld=_f(_grid()[::3])),
        'cross.default.tiny': lambda: teneva.cross(lambda I: 1.0 / (1.0 + np.asarray(I) @ np.array([1.0, 1.0])), space.tt([3, 3], [1, 1, 1], 'gen', 0, tag=66),
                                                   nswp=3, dr_min=1, dr_max=1),
        'cross.default.tiny_e': lambda: teneva.cross(lambda I: 1.0 / (1.0 + np.asarray(I) @ np.array([1.0, 1.0, 1.0])), space.tt([3, 3, 3], [1, 1, 1, 1], 'gen', 0, tag=66),
                                                     e=1e-14, nswp=4, dr_min=1, dr_max=1),
        'als.default.long': lambda: teneva.als(grid, _f(grid), _Y(9, r=2), nswp=6, I_vld=grid[::2], y_vld=_f(grid[::2]), e_vld=1e-30),
        # the experimental allow_swap run really swaps modes here (rearrange = [1, 2, 0]) and leaves that in the default info
        'als.default.swap': lambda: _quiet(lambda: teneva.als(g3, y3, space.tt([3, 3, 3], [1, 1, 1, 1], 'gen', 0, tag=3), nswp=3, r=3,
                                                               allow_swap=True, swap_tol=3, e_adap=0.01, I_vld=g3[::2], y_vld=y3[::2])),
        'als.default.vld333': lambda: teneva.als(g3, y3, space.tt([3, 3, 3], [1, 2, 2, 1], 'gen', 0, tag=5), nswp=5, I_vld=g3[1::2], y_vld=y3[1::2],
                                                 e_vld=0.05),
        # a threshold on the validation error without validation data: nothing to compare, must run all sweeps
        'als_func.default.evld_only': lambda: teneva.als_func(X, _f(grid), _Y(10, (3, 3, 3), 2), -1., 1., nswp=4, e_vld=0.9, thr_pow=0.),
        'als.default.evld_only': lambda: teneva.als(grid, _f(grid), _Y(9, r=2), nswp=4, e_vld=0.9),
        'als.default.tiny': lambda: teneva.als(space.grid_array([2, 2]), np.array([1., 2., 3., 5.]), space.tt([2, 2], [1, 1, 1], 'gen', 0, tag=67), nswp=2),
        'als.default': lambda: teneva.als(grid, _f(grid), _Y(9, r=2), nswp=2),
        'als.default.vld': lambda: teneva.als(grid, _f(grid), _Y(9, r=1), nswp=3, I_vld=grid[::2], y_vld=_f(grid[::2]), e_vld=1e-2),
        'als_func.default': lambda: teneva.als_func(X, _f(grid), _Y(10, (3, 3, 3), 2), -1., 1., nswp=2, thr_pow=0.),
        'als_func.default.vld': lambda: teneva.als_func(X, _f(grid), _Y(10, (3, 3, 3), 1), -1., 1., nswp=3, X_vld=X[::2],
                                                        y_vld=_f(grid[::2]), e_vld=1e-2, thr_pow=0.),
        'cache_to_data.default': lambda: list(teneva.cache_to_data()),
        'cache_to_data.arg': lambda: list(teneva.cache_to_data({(0, 1): 2.0, (1, 1): -1.0})),
    }


PERTURB = {
    'np.random.seed(0)': lambda: np.random.seed(0),
    'np.random.seed(7)': lambda: np.random.seed(7),
    'np.random.rand(3)': lambda: (np.random.rand(3), None)[1],
}


def alphabet():
    A = {}
    for name, fn in _seeded(None).items():
        for s in SEEDS:
            A['%s(seed=%d)' % (name, s)] = ('seeded', (lambda fn=fn, s=s: fn(s)))
        A['%s(gen)' % name] = ('seeded', (lambda fn=fn: fn(np.random.default_rng(5))))
    for name, fn in _variants().items():
        A[name] = ('seeded', fn)
    for name, fn in _deterministic().items():
        A[name] = ('det', fn)
    for name, fn in _defaults().items():
        A[name] = ('default', fn)
    for name, fn in PERTURB.items():
        A[name] = ('perturb', fn)
    return A


def _control():
    """Pure NumPy / SciPy work of the kinds the library does (no teneva code): if this is bit-identical in two fresh interpreters, the
    environment is reproducible and a library call that is not has a hidden input."""
    import scipy.linalg
    A = np.cos(np.arange(40 * 16).reshape(40, 16) * 0.37) + 0.1
    out = [np.linalg.svd(A, full_matrices=False)[1], np.linalg.eigh(A.T @ A)[0], np.linalg.qr(A)[1], scipy.linalg.lstsq(A, A[:, 0] * 2 + 1)[0],
           scipy.linalg.rq(A[:8], mode='economic')[0], scipy.linalg.lu(A)[1], np.linalg.solve(A[:16] + 4 * np.eye(16), A[:16, 0]), A @ A.T]
    return obs(out)


def run_call(cid):
    if cid == '__control__':
        return 'control', _control()
    kind, fn = alphabet()[cid]
    with warnings.catch_warnings():
        warnings.simplefilter('ignore')
        out = fn()
    return kind, (None if kind == 'perturb' else obs(out))


# ------------------------------------------------------------------------------------------
# fresh-interpreter baselines (computed by the driver, once per call, twice)

def _spawn(cid, gseed=None, hashseed=None):
    env = dict(os.environ)
    if hashseed is not None:
        env['PYTHONHASHSEED'] = str(hashseed)        # the harness pins the salt of str / bytes hashing for itself; a result may not depend on it
    root = os.path.dirname(os.path.dirname(os.path.dirname(os.path.abspath(__file__))))
    p = subprocess.run([sys.executable, '-W', 'ignore', '-m', 'mc.props.c10', cid] + ([str(gseed)] if gseed is not None else []),
                       cwd=root, env=env, capture_output=True, text=True)
    if p.returncode != 0:
        return 'ERROR:' + p.stderr[-300:]
    return p.stdout.strip().splitlines()[-1]


def baselines(ids):
    with ThreadPoolExecutor(max_workers=16) as ex:
        a = list(ex.map(lambda i: _spawn(i, None, 101), ids))
        b = list(ex.map(lambda i: _spawn(i, None, 202), ids))
    return {cid: (x, y) for cid, x, y in zip(ids, a, b)}


# ------------------------------------------------------------------------------------------
# checkers

def check_history(c):
    """One history, executed in a freshly forked worker."""
    res = Res()
    hist = c['hist']
    exp = c['expect']
    prev_lib = False
    for pos, cid in enumerate(hist):
        res.ev()
        kind, fn = alphabet()[cid]
        before = rng_state_key()
        try:
            k2, o = run_call(cid)
        except Exception as ex:
            res.fail('raised', c, '%s raised %s: %s' % (cid, type(ex).__name__, str(ex)[:200]), ['call=' + cid.split('(')[0]])
            return res
        after = rng_state_key()
        res.tr()
        res.state(digest((hist[:pos + 1],)))
        if kind == 'perturb':
            continue
        tg = ['call=' + cid.split('(')[0], 'kind=' + kind]
        res.check(before == after, 'global', c,
                  lambda: '%s changed the state of the global NumPy generator' % cid, tg + ['global'])
        e = exp.get(cid)
        if e is None or e[0] != e[1] or e[0].startswith('ERROR'):
            res.skip('no reproducible baseline for ' + cid)
            continue
        res.check(o == e[0], 'same', c,
                  lambda: '%s after history %s differs bitwise from the same call in a fresh interpreter' % (cid, hist[:pos]),
                  tg + ['same'])
    if len(hist) > 1:
        res.nt(hist)
    res.outcome(hist[-1].split('(')[0])
    return res


def check_object(c):
    """Twin generator objects in equal state under different global states."""
    res = Res()
    name = c['fn']
    fn = _seeded(None)[name]
    outs = []
    for gstate in c['globals']:
        res.ev()
        if gstate is None:
            np.random.seed(None if False else 12345)
        else:
            np.random.seed(gstate)
            np.random.rand(gstate % 5)
        g = np.random.default_rng(c['gen_seed'])
        before = rng_state_key()
        with warnings.catch_warnings():
            warnings.simplefilter('ignore')
            o = obs(fn(g))
        after = rng_state_key()
        res.check(before == after, 'global', dict(c, gstate=gstate), '%s(gen) touched the global generator' % name,
                  ['call=' + name, 'global'])
        outs.append((o, json.dumps(g.bit_generator.state, sort_keys=True, default=str)))
        res.tr()
        res.state(digest((name, c['gen_seed'], gstate)))
    res.check(len({o for o, _ in outs}) == 1, 'object.result', c,
              '%s gives different results for equal generator objects under different global states' % name, ['call=' + name])
    res.check(len({s for _, s in outs}) == 1, 'object.final_state', c,
              '%s leaves equal generator objects in different states' % name, ['call=' + name])
    # equal STATE, different lineage: a state copied into a generator created from another seed, and a generator that has spawned children
    # before; the results and the final states are functions of the state alone
    res.ev()
    g1 = np.random.default_rng(c['gen_seed'])
    g2 = np.random.default_rng(987654321)
    g2.bit_generator.state = g1.bit_generator.state
    g3 = np.random.default_rng(c['gen_seed'])
    try:
        g3.spawn(2)
    except Exception:
        pass
    lin = []
    for g in (g1, g2, g3):
        with warnings.catch_warnings():
            warnings.simplefilter('ignore')
            o = obs(fn(g))
        lin.append((o, json.dumps(g.bit_generator.state, sort_keys=True, default=str)))
    res.check(len({o for o, _ in lin}) == 1 and len({s for _, s in lin}) == 1, 'object.lineage', c,
              '%s gives different results (or final states) for generator objects in the same state that differ in how they were created' % name, ['call=' + name])
    # an int seed must not depend on the global state either, and repeated calls agree
    for s in SEEDS:
        vals = set()
        for gstate in c['globals']:
            res.ev()
            np.random.seed(gstate if gstate is not None else 999)
            with warnings.catch_warnings():
                warnings.simplefilter('ignore')
                vals.add(obs(fn(s)))
        res.check(len(vals) == 1, 'seed.repeat', dict(c, int_seed=s),
                  '%s(seed=%d) differs between repeated calls under different global states' % (name, s), ['call=' + name])
    res.nt((name, c['gen_seed']))
    return res


def check_baseline(c):
    """Two fresh interpreters must agree on every call of the alphabet.  If they do not, three more fresh
    interpreters (global generator seeded 0, 0, 1 before the call) tell a dependence on the global generator
    (a violation) from an environment that is not bit-reproducible (a note, never an alarm)."""
    res = Res()
    cid = c['call']
    res.ev()
    a, b = c['fresh']
    res.tr(2)
    res.state(digest((cid, 'fresh')))
    if a.startswith('ERROR') or b.startswith('ERROR'):
        res.fail('fresh.raised', c, 'fresh interpreter failed: %s' % (a if a.startswith('ERROR') else b)[:300],
                 ['call=' + cid.split('(')[0]])
        return res
    if a == b:
        res.ok('fresh.same')
        return res
    # the two baselines ran under different hash salts (PYTHONHASHSEED 101 / 202): same global seed, same salt twice and the other salt once
    h1, h1b, h2 = _spawn(cid, 0, 101), _spawn(cid, 0, 101), _spawn(cid, 0, 202)
    res.tr(3)
    if h1 == h1b and h1 != h2:
        res.fail('fresh.hashsalt', c, '%s gives different results in interpreters that differ only in their hash salt (PYTHONHASHSEED): the result '
                 'depends on hash() of a str / bytes / tuple thereof, which is neither an argument nor the seed' % cid, ['call=' + cid.split('(')[0], 'same'])
        return res
    g0, g0b, g1 = _spawn(cid, 0, 101), _spawn(cid, 0, 101), _spawn(cid, 1, 101)
    res.tr(3)
    if g0 == g0b:
        res.check(g0 == g1 and False, 'fresh.same', c,
                  '%s gives different results in two fresh interpreters; with the global NumPy generator seeded '
                  'identically the results agree (%s), with different global seeds they %s: the result depends on the global generator'
                  % (cid, g0, 'differ' if g0 != g1 else 'agree'), ['call=' + cid.split('(')[0], 'same'])
    else:
        # not the global generator.  Is it the environment?  The control (the same kinds of LAPACK / BLAS work without any library code) in
        # two more fresh interpreters decides: reproducible control => the call has a hidden input (entropy, time, addresses) => violation
        c1, c2 = _spawn('__control__', None, 101), _spawn('__control__', None, 202)
        res.tr(2)
        if c1 == c2 and not c1.startswith('ERROR'):
            res.fail('fresh.unstable', c, '%s gives different results in fresh interpreters even with the global generator seeded identically, '
                     'while plain NumPy / SciPy linear algebra is bit-reproducible here: the result depends on something that is neither an '
                     'argument nor the seed' % cid, ['call=' + cid.split('(')[0], 'same'])
        else:
            res.skip('environment not bit-reproducible for ' + cid)
    return res




# ------------------------------------------------------------------------------------------
# recall: every exported function (the C09 registry of calls) asked again after its first result was overwritten, and after its
# arguments were edited in place - a result may depend on the VALUES of the arguments only, not on what an earlier call left behind

def _sig(x):
    from mc.props.c09 import arrays_in
    if isinstance(x, np.ndarray) or isinstance(x, (list, tuple, dict)):
        arrs = arrays_in(x, 'r')
        rest = repr([v for v in (x if isinstance(x, (list, tuple)) else []) if isinstance(v, (int, float, str, bool, type(None), np.integer, np.floating))])
        return digest([(p, a.shape, a.dtype.str, np.ascontiguousarray(a).tobytes().hex() if a.size < 4096 else hashlib.sha1(np.ascontiguousarray(a).tobytes()).hexdigest()) for p, a in arrs] + [rest])
    return digest(repr(x))


def _edit(x, depth=0):
    """Scale every float ndarray reachable from x in place (values stay valid: positive stays positive, ranks and shapes unchanged)."""
    n = 0
    if isinstance(x, np.ndarray):
        if x.dtype.kind == 'f' and x.flags.writeable and x.size:
            x *= 0.75
            x[(slice(None),) * (x.ndim // 2) + (0,)] *= 0.5        # and not uniformly: a uniform scaling is invisible to scale-invariant functions
            n = 1
    elif isinstance(x, (list, tuple)) and depth < 6:
        seen = set()
        for v in x:
            if id(v) not in seen:
                seen.add(id(v))
                n += _edit(v, depth + 1)
    elif isinstance(x, dict) and depth < 6:
        for k, v in x.items():
            if k not in ('info', 'cache'):
                n += _edit(v, depth + 1)
    return n


def _clone(x, depth=0):
    if isinstance(x, np.ndarray):
        return np.array(x, copy=True, order='K')
    if isinstance(x, list) and depth < 6:
        return [_clone(v, depth + 1) for v in x]
    if isinstance(x, tuple) and depth < 6:
        return tuple(_clone(v, depth + 1) for v in x)
    if isinstance(x, dict) and depth < 6:
        return {k: _clone(v, depth + 1) for k, v in x.items()}
    return x


def check_recall(c):
    import contextlib
    import io
    from mc.props import c09
    res = Res()
    name, L, rk = c['fn'], c['layout'], c['rank']
    fn = getattr(teneva, name)

    def fresh(ci):
        with warnings.catch_warnings():
            warnings.simplefilter('ignore')
            return c09.registry()[name](L, rk)[ci]

    def call(a, k):
        with warnings.catch_warnings(), contextlib.redirect_stdout(io.StringIO()):
            warnings.simplefilter('ignore')
            out = fn(*a, **k)
        if name in ('ANOVA', 'ANOVA_func'):
            out = [out.cores(2, 0.) if name == 'ANOVA' else out.cores(1e-8)]
        return out

    def attempt(a, k):
        try:
            return _sig(call(a, k)), None
        except Exception as ex:
            return None, type(ex).__name__

    with warnings.catch_warnings():
        warnings.simplefilter('ignore')
        ncomb = len(c09.registry()[name](L, rk))
    for ci in range(ncomb):
        label, a1, k1 = fresh(ci)
        if label.startswith('INVALID-'):
            continue
        res.ev()
        case = dict(fn=name, layout=L, rank=rk, combo=label)
        tags = ['fn=' + name]
        try:
            o1 = call(a1, k1)
        except Exception as ex:
            res.skip('call raised %s (%s %s)' % (type(ex).__name__, name, label))
            continue
        s1 = _sig(o1)
        _, a2, k2 = fresh(ci)
        o2 = call(a2, k2)
        if _sig(o2) != s1:
            res.skip('two calls with equal arguments differ: unseeded random function (%s %s)' % (name, label))
            continue
        # (1) overwrite both results and both argument sets, then ask again with equal, new arguments
        for o in (o1, o2):
            for _, arr in c09.arrays_in(o, 'r'):
                if arr.flags.writeable and arr.dtype.kind in 'fiu':
                    arr[...] = 0
        _edit(a1), _edit(k1), _edit(a2), _edit(k2)
        _, a3, k3 = fresh(ci)
        s3, e3 = attempt(a3, k3)
        res.check(s3 == s1, 'recall.after_write', case,
                  lambda: 'after the earlier results / arguments of %s(%s) were overwritten, a call with equal arguments %s' % (
                      name, label, 'raised ' + e3 if e3 else 'returns something else'), tags + ['recall'])
        # (2) call, edit the SAME argument objects in place, call again; the same values in new objects give the reference
        _, a4, k4 = fresh(ci)
        call(a4, k4)
        if _edit(a4) + _edit(k4) == 0:
            continue
        for out_arg in ('cache', 'info'):            # output arguments filled by the first call are not part of "the same arguments"
            if isinstance(k4.get(out_arg), dict):
                k4[out_arg] = type(k4[out_arg])()
        s4, e4 = attempt(a4, k4)
        # the reference: NEW objects with the same values AND the same memory layout (a contiguous copy of a strided view may differ in the
        # last bit inside BLAS): a fresh argument set taken through the same edit
        _, a5, k5 = fresh(ci)
        _edit(a5), _edit(k5)
        s5, e5 = attempt(a5, k5)
        if e5 is not None and e4 is not None:
            res.skip('edited arguments are rejected (%s %s)' % (name, label))
            continue
        res.check(s4 == s5 and e4 == e5, 'recall.after_edit', case,
                  lambda: '%s(%s): after an in-place edit of the argument arrays the call on the same objects %s, on equal new objects %s' % (
                      name, label, 'raised ' + e4 if e4 else 'gives ' + str(s4)[:12], 'raised ' + e5 if e5 else 'gives ' + str(s5)[:12]),
                  tags + ['recall'])
        # (3) arguments that are freed between calls: new objects with OTHER values may land on the addresses of dead ones; a result keyed
        # by id() of an argument shows as a difference between a pass that keeps every argument alive and a pass that rebinds one name
        def variant(t):
            _, a, k = fresh(ci)
            for _ in range(t):
                _edit(a), _edit(k)
            return a, k
        keep, ref_sigs = [], []
        for t in range(4):
            a, k = variant(t)
            keep.append((a, k))
            ref_sigs.append(attempt(a, k))
        del keep
        got_sigs = []
        for rnd in range(2):
            for t in range(4):
                a, k = variant(t)
                got_sigs.append(attempt(a, k))
                del a, k
        res.check(got_sigs == ref_sigs * 2, 'recall.rebinding', case,
                  lambda: '%s(%s): results differ between a pass that keeps all argument objects alive and a pass that frees each one before the next is built' % (name, label),
                  tags + ['recall'])
        res.nt((name, label, L, rk))
    return res


CHECKERS = {'history': check_history, 'object': check_object, 'baseline': check_baseline, 'recall': check_recall}


def strata(tier, seed):
    A = alphabet()
    ids = list(A)
    base = baselines([i for i in ids if A[i][0] != 'perturb'])
    bad = {k: v for k, v in base.items() if v[0] != v[1] or v[0].startswith('ERROR')}
    bl = [dict(call=k, fresh=list(v)) for k, v in base.items()]
    yield Stratum('fresh-interpreter baselines', bl, 'baseline', size=len(bl), chunk=1, bounds={'fresh interpreters per call': 2})
    hist = [[a] for a in ids] + [[a, b] for a in ids for b in ids if A[b][0] != 'perturb']
    cases = [dict(hist=h, expect={k: list(base[k]) for k in h if k in base}) for h in hist]
    yield Stratum('histories<=2', cases, 'history', size=len(ids) + len(ids) * (len(ids) - len(PERTURB)), chunk=1,
                  fresh_worker=True,
                  bounds={'alphabet': len(ids), 'length': 2, 'baselines_not_reproducible': sorted(bad)})
    from mc.props import c09
    rc = [dict(fn=n, layout=L, rank=rk) for n in sorted(c09.registry()) for L in (('C', 'F') if tier == 'quick' else c09.LAYOUTS) for rk in ((2,) if tier == 'quick' else (1, 2, 3))]
    yield Stratum('recall: every exported function after overwriting results / editing arguments in place', rc, 'recall', seq=True, size=len(rc), chunk=2,
                  bounds={'functions': len(c09.registry()), 'calls per combination': 5})
    obj = [dict(fn=name, gen_seed=gs, globals=[0, 7, 123, None]) for name in _seeded(None) for gs in (5, 6)]
    yield Stratum('generator objects', obj, 'object', size=len(obj), chunk=1, fresh_worker=True, bounds={})
    if tier == 'thorough':
        # first and third position: the calls that can leave / feel residue (default-argument calls, perturbations of the global generator,
        # one seed per seeded function); the middle position: the whole alphabet.  (With every seeded variant in the outer positions the
        # stratum has 760 000 histories of 3 calls in a fresh process each, about 5 hours on 16 cores.)
        basef = set(_seeded(None))
        third = [i for i in ids if A[i][0] == 'default' or (A[i][0] == 'seeded' and i.endswith('(seed=0)') and i[:-8] in basef)]
        firsts = [i for i in ids if A[i][0] in ('default', 'perturb') or (A[i][0] == 'seeded' and i.endswith('(seed=1)') and i[:-8] in basef)]
        h3 = [[a, b, c] for a in firsts for b in ids for c in third]
        cases3 = [dict(hist=h, expect={k: list(base[k]) for k in h if k in base}) for h in h3]
        yield Stratum('histories=3', cases3, 'history', size=len(firsts) * len(ids) * len(third), chunk=1,
                      fresh_worker=True, bounds={'third position': len(third), 'first position': len(firsts)})


if __name__ == '__main__':
    # fresh-interpreter baseline of one call:  python -m mc.props.c10 <call id>
    os.environ.setdefault('OMP_NUM_THREADS', '1')
    if len(sys.argv) > 2:
        np.random.seed(int(sys.argv[2]))
    print(run_call(sys.argv[1])[1])
