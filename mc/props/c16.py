"""C16 - stabilised arithmetic stays finite and correct where plain floats overflow.  Mode L.

Reference: Python big integers for the mantissa chain plus an integer exponent - unbounded
exponents, no floating point."""
import itertools
import math
import warnings
from fractions import Fraction

import numpy as np
import teneva

from mc import ref, space
from mc.engine import Res, Stratum

ID = 'C16'
REGISTERED = True
LEVEL = 'exploration'
TECHNIQUE = ('exhaustive lattice enumeration: d in {2,3,10,100,1000,3000} x rank x total exponent in +-{0,1000,1100,30000} x '
             'exponent distribution x mantissa pattern; exact big-integer reference with unbounded exponent; every single-core '
             'power-of-two shift at a set of positions')
LEVEL_TEXT = ('each configuration is evaluated by the real stabilised norm / scalar product / orthogonalisation / accuracy / '
              'rounding and compared with exact integer arithmetic carrying its own exponent, i.e. at magnitudes (2^+-30000) where '
              'no float reference exists; shifting one core by 2^s must move the exponent by exactly s')
LEVEL_NOTE = ('bounded: the listed d and exponents, ranks <= 2 (3 for d <= 100), positive small-integer mantissas for the large d '
              '(no cancellation, so the rounding bound 64*u*d*r^2 applies); per-core exponents >= -150 (below its documented '
              'threshold 1e-100 core_stab deliberately does not rescale)')
RULE = ('cases = product(d, rank, total exponent, distribution, pattern) subject to every core being representable; non-trivial: '
        'the plain (unstabilised) norm over- or underflows; distinct = the configuration.')
ASSUMPTIONS = ['per-core exponents in [-150, 450] (the square of every core entry must be representable: the scalar product forms core x core before it can rescale)', 'mantissa patterns are small positive integers for d >= 100']


def exps(d, E, dist):
    """Per-core exponents summing to E, or None if not representable under the constraints."""
    if dist == 'even':
        base, rem = divmod(abs(E), d)
        s = [base + (1 if k < rem else 0) for k in range(d)]
        s = [x if E >= 0 else -x for x in s]
    elif dist == 'first':
        s = [E] + [0] * (d - 1)
    elif dist == 'last':
        s = [0] * (d - 1) + [E]
    elif dist == 'alt':
        s = [(100 if k % 2 == 0 else -100) for k in range(d)]
        s[0] += E - sum(s)
    elif dist == 'vee':
        # down then up: the running product of <Y,Y> dips into the subnormal range (about 2^-1050) and comes back,
        # the total stays representable (E is the total exponent, normally 0)
        h = d // 2
        if h < 4:
            return None
        base, rem = divmod(525, h)
        down = [-(base + (1 if k < rem else 0)) for k in range(h)]
        s = down + [0] * (d - 2 * h) + [-x for x in down[::-1]]
        s[-1] += E
    else:
        raise ValueError(dist)
    if any(x < -150 or x > 450 for x in s):
        return None
    return s


def mant(d, r, pat):
    """Small-integer mantissa cores."""
    rk = [1] + [r] * (d - 1) + [1]
    out = []
    for k in range(d):
        n = 2
        i, j, l = np.meshgrid(np.arange(rk[k]), np.arange(n), np.arange(rk[k + 1]), indexing='ij')
        if pat == 'pos':
            G = 1 + ((i + 2 * j + l + k) % 3)
        elif pat == 'deadch':
            # one bond channel that carries nothing on its left side (exact zeros) followed by live channels: exact zero pivots
            G = 1 + ((i + 2 * j + l + k) % 3)
            if k in (0, d // 2) and rk[k + 1] > 1:
                G = np.where(l == 0, 0, G)
        elif pat == 'diag':
            G = (i == l) * (1 + j) + ((i + l + k) % 2)
        else:          # signed (small d only)
            G = ((i + 2 * j + 3 * l + k) % 5) - 2
            G = np.where(G == 0, 1, G)
        out.append(G.astype(np.int64))
    return out


def build(M, s):
    return [G.astype(float) * 2.0 ** e for G, e in zip(M, s)]


def exact_dot(M1, M2):
    v = None
    for A, B in zip(M1, M2):
        r1a, n, r2a = A.shape
        r1b, _, r2b = B.shape
        W = np.zeros((r1a * r1b, r2a * r2b), dtype=object)
        Ao, Bo = A.astype(object), B.astype(object)
        for i in range(n):
            W = W + np.kron(Ao[:, i, :], Bo[:, i, :])
        v = W if v is None else v.dot(W)
    return int(v[0, 0])


def ratio(v, p2, N, E2):
    """(v * 2^p2) / (N * 2^E2) as a float, all exponents integers, N a big int."""
    if N == 0:
        return None
    fv = Fraction(v)
    sh = p2 - E2
    q = fv * (Fraction(2) ** sh) / N if abs(sh) < 4000 else None
    if q is None:
        # compare through logs of exact quantities
        nb = N.bit_length()
        Nm = N / (1 << (nb - 60)) if nb > 60 else float(N)
        Ne = nb - 60 if nb > 60 else 0
        m, e = math.frexp(v)
        return (m / Nm) * 2.0 ** (e + sh - Ne) if abs(e + sh - Ne) < 1000 else float('inf')
    return float(q)


def sget(Y, idx):
    """Own stabilised entry: (mantissa, exponent)."""
    v = np.ones((1, 1))
    e = 0
    for G, i in zip(Y, idx):
        v = v @ G[:, i, :]
        m = np.abs(v).max()
        if m > 0:
            f = int(math.frexp(m)[1])
            v = v * 2.0 ** (-f)
            e += f
    return float(v[0, 0]), e


def check_config(c):
    res = Res()
    d, r, E, dist, pat = c['d'], c['r'], c['E'], c['dist'], c['pat']
    s = exps(d, E, dist)
    res.ev()
    if s is None:
        res.skip('exponent distribution not representable')
        return res
    M = mant(d, r, pat)
    Y = build(M, s)
    tags = ['d=%d' % d, 'E=%d' % E, 'dist=' + dist]
    tol = 64 * 2.0 ** -53 * d * r * r + 1e-13
    N = exact_dot(M, M)
    E2 = 2 * sum(s)
    case = dict(c)
    with warnings.catch_warnings():
        warnings.simplefilter('ignore')
        # ---- stabilised scalar product and norm ---------------------------------------------------------
        v, p = teneva.mul_scalar(Y, Y, use_stab=True)
        okp = float(p) == int(p) and np.isfinite(v)
        res.check(okp, 'dot.form', case, lambda: 'mul_scalar stab returned (%r, %r)' % (v, p), tags)
        if okp:
            q = ratio(v, int(p), N, E2)
            res.check(q is not None and abs(q - 1) <= tol, 'dot.value', case,
                      lambda: 'v*2^p / exact = %r (v=%r, p=%r, exact exponent %d)' % (q, v, p, E2), tags + ['value'])
            res.check(0.5 <= abs(v) < 4, 'dot.mantissa', case, lambda: 'mantissa %r not of moderate size' % v, tags)
        nv, ph = teneva.norm(Y, use_stab=True)
        okn = np.isfinite(nv) and float(2 * ph) == int(2 * ph)
        res.check(okn, 'norm.form', case, lambda: 'norm stab returned (%r, %r)' % (nv, ph), tags)
        if okn:
            q = ratio(nv * nv, int(2 * ph), N, E2)
            res.check(q is not None and abs(q - 1) <= 2 * tol, 'norm.value', case,
                      lambda: '(v*2^p)^2 / exact = %r (v=%r, p=%r)' % (q, nv, ph), tags + ['value'])
            res.check(0.5 <= nv < 4, 'norm.mantissa', case, lambda: 'mantissa %r' % nv, tags)
        # second operand: same mantissas, different exponent distribution where possible
        M2 = mant(d, r, 'diag')
        s2 = exps(d, -E // 2 if abs(E) < 2000 else E, 'even') or s
        Y2 = build(M2, s2)
        N12 = exact_dot(M, M2)
        v12, p12 = teneva.mul_scalar(Y, Y2, use_stab=True)
        if N12 != 0:
            q = ratio(v12, int(p12), N12, sum(s) + sum(s2))
            res.check(q is not None and abs(q - 1) <= tol, 'dot.value2', case,
                      lambda: '<Y1,Y2>: v*2^p / exact = %r' % q, tags + ['value'])
        # ---- integer-typed cores (small integers stored as int64): the stabilised product must not truncate them ----------
        if c['pat'] == 'pos' and E == 0 and dist == 'even':
            Mi = [G.astype(np.int64) for G in M]
            vi, pi = teneva.mul_scalar(Mi, Mi, use_stab=True)
            q = ratio(vi, int(pi), N, 0)
            res.check(q is not None and abs(q - 1) <= tol, 'dot.int_cores', case,
                      lambda: 'integer-typed cores: v*2^p / exact = %r' % q, tags + ['value'])
            ni, phi_ = teneva.norm(Mi, use_stab=True)
            q = ratio(ni * ni, int(2 * phi_), N, 0)
            res.check(q is not None and abs(q - 1) <= 2 * tol, 'norm.int_cores', case, lambda: 'integer-typed cores: norm ratio %r' % q, tags + ['value'])
            # accuracy with a narrower-typed FIRST operand and a non-integer factor on an interior core of the second
            Yf = [G.astype(float) for G in M]
            Yf[d // 2] = Yf[d // 2] * 1.1
            for nm, Y1 in (('int64', Mi), ('float32', [G.astype(np.float32) for G in M])):
                an = teneva.accuracy(Y1, Yf)
                res.check(abs(an - (0.1 / 1.1)) <= 1e-9 * (1 + d / 100), 'accuracy.mixed_dtype', dict(case, first=nm),
                          lambda: 'accuracy(%s-typed Y, 1.1 Y) = %r, exact 1/11' % (nm, an), tags + ['value'])
        # ---- plain vs stabilised when the plain result is representable -------------------------------
        # plain computation representable: the final value AND every partial product of the left-to-right chain
        pref = np.cumsum([2 * x for x in s])
        representable = max(abs(int(pref.max())), abs(int(pref.min()))) + N.bit_length() < 1000
        if representable:
            pl = teneva.mul_scalar(Y, Y)
            res.check(np.isfinite(pl) and abs(pl / (v * 2.0 ** p) - 1) <= 1e-12 * (1 + d / 10), 'plain.dot', case,
                      lambda: 'plain %r vs stabilised %r*2^%r' % (pl, v, p), tags)
            pn = teneva.norm(Y)
            res.check(abs(pn / (nv * 2.0 ** ph) - 1) <= 1e-12 * (1 + d / 10), 'plain.norm', case, 'plain norm vs stabilised', tags)
        else:
            res.nt((d, r, E, dist, pat))
        # ---- stabilised orthogonalisation ---------------------------------------------------------------
        for k in sorted({0, d - 1, d // 2}):
            out = teneva.orthogonalize(Y, k, use_stab=True)
            good = isinstance(out, tuple) and len(out) == 2 and float(out[1]) == int(out[1])
            if not res.check(good, 'orth.form', dict(case, k=k), 'not a (Z, p) pair', tags):
                continue
            Z, pz = out[0], int(out[1])
            fin = ref.wellformed(Z, [2] * d) is None and ref.finite(Z)
            res.check(fin and all(np.abs(G).max() <= 2.0 * np.sqrt(2.0) * max(1, G.shape[0]) for G in Z), 'orth.moderate', dict(case, k=k),
                      lambda: 'entries of Z not finite / moderate (max %.3g)' % max(np.abs(G).max() for G in Z), tags)
            if not fin:
                continue
            # same tensor: compare entries through an own stabilised chain, at a few multi-indices
            okv = True
            worst = 0.0
            for idx in ([0] * d, [1] * d, [j % 2 for j in range(d)], [(j // 3) % 2 for j in range(d)]):
                my, ey = sget(Y, idx)
                mz, ez = sget(Z, idx)
                if my == 0:
                    continue
                sh = ez + pz - ey
                qv = (mz / my) * 2.0 ** sh if abs(sh) < 1000 else float('inf')
                worst = max(worst, abs(qv - 1))
                okv = okv and abs(qv - 1) <= 1e4 * tol
            res.check(okv, 'orth.same', dict(case, k=k), lambda: 'entries of 2^p Z differ from Y by relative %.3e' % worst, tags + ['value'])
            nz = float(np.linalg.norm(Z[k]))
            q = ratio(nz * nz, 2 * pz, N, E2)
            res.check(q is not None and abs(q - 1) <= 4 * tol + 1e-11, 'orth.norm', dict(case, k=k),
                      lambda: '|pivot|^2 * 2^(2p) / exact norm^2 = %r' % q, tags + ['value'])
        # ---- accuracy ---------------------------------------------------------------------------------------
        Yd = [G.copy() for G in Y]
        Yd[d // 2] = Yd[d // 2] * 2.0
        acc = teneva.accuracy(Y, Yd)
        res.check(abs(acc - 0.5) <= 1e-9 * (1 + d / 100), 'accuracy.half', case, lambda: 'accuracy(Y, 2Y) = %r, exact 0.5' % acc, tags + ['value'])
        res.check(teneva.accuracy(Y, Y) == 0 or abs(teneva.accuracy(Y, Y)) <= 1e-7, 'accuracy.self', case,
                  lambda: 'accuracy(Y, Y) = %r' % teneva.accuracy(Y, Y), tags)
        if s[0] + 300 <= 450 and s[d - 1] + 300 <= 450:
            Yb = [G.copy() for G in Y]
            Yb[0] = Yb[0] * 2.0 ** 300
            Yb[d - 1] = Yb[d - 1] * 2.0 ** 300
            res.check(teneva.accuracy(Yb, Y) == 1.E+299, 'accuracy.saturate_up', case,
                      lambda: 'accuracy(2^600 Y, Y) = %r, documented saturation 1e299' % teneva.accuracy(Yb, Y), tags)
            a1 = teneva.accuracy(Y, Yb)
            res.check(abs(a1 - 1) <= 1e-9, 'accuracy.one', case, lambda: 'accuracy(Y, 2^600 Y) = %r, exact 1 - 2^-600' % a1, tags)
        # ratio beyond the double range (>= 2^1100): still the documented saturation, never -1 / NaN / inf
        boost = min(450 - max(s), 400)
        if boost >= 100 and d * boost >= 1100:
            nb = -(-1100 // boost)
            Yc = [G.copy() for G in Y]
            for j in range(nb):
                Yc[j] = Yc[j] * 2.0 ** boost
            a2 = teneva.accuracy(Yc, Y)
            res.check(a2 == 1.E+299, 'accuracy.saturate_far', case,
                      lambda: 'accuracy(2^%d Y, Y) = %r, documented saturation 1e299' % (nb * boost, a2), tags)
            a3 = teneva.accuracy(Y, Yc)
            res.check(abs(a3 - 1) <= 1e-9, 'accuracy.one_far', case, lambda: 'accuracy(Y, 2^%d Y) = %r, exact ~1' % (nb * boost, a3), tags)
        # ---- stabilised rounding -----------------------------------------------------------------------------
        if d <= 100:
            Y4 = teneva.add(Y, Yd)          # = 3 Y with doubled ranks
            T = teneva.truncate(Y4, 1e-6, use_stab=True)
            okT = ref.wellformed(T, [2] * d) is None and ref.finite(T)
            res.check(okT, 'truncate.finite', case, 'stabilised rounding returned non-finite / malformed cores', tags)
            if okT:
                res.check(max(G.shape[2] for G in T) <= r, 'truncate.ranks', case,
                          lambda: 'ranks %s after rounding 3Y (rank %d)' % ([G.shape[2] for G in T[:-1]], r), tags)
                okv, worst = True, 0.0
                for idx in ([0] * d, [1] * d, [j % 2 for j in range(d)]):
                    my, ey = sget(Y, idx)
                    mt, et = sget(T, idx)
                    if my == 0:
                        continue
                    sh = et - ey
                    qv = (mt / (3 * my)) * 2.0 ** sh if abs(sh) < 1000 and my != 0 else float('inf')
                    worst = max(worst, abs(qv - 1))
                    okv = okv and abs(qv - 1) <= 1e-5
                res.check(okv, 'truncate.same', case, lambda: 'rounded tensor differs from 3Y by relative %.3e' % worst, tags + ['value'])
        # ---- single-core power-of-two shifts ---------------------------------------------------------------------
        for pos in sorted({0, 1 % d, d // 2, d - 1}):
            for sft in (1, -1, 10, -10, 100, -100):
                if not (-150 <= s[pos] + sft <= 450):
                    continue
                res.ev()
                Ys = [G.copy() for G in Y]
                Ys[pos] = Ys[pos] * 2.0 ** sft
                cs = dict(case, pos=pos, shift=sft)
                v2, p2 = teneva.mul_scalar(Ys, Ys, use_stab=True)
                _shift_ok(res, cs, 'shift.dot', (v, p), (v2, p2), 2 * sft, tags)
                n2, ph2 = teneva.norm(Ys, use_stab=True)
                _shift_ok(res, cs, 'shift.norm', (nv, ph), (n2, ph2), sft, tags)
                k = d - 1
                Z1, q1 = teneva.orthogonalize(Y, k, use_stab=True)
                Z2, q2 = teneva.orthogonalize(Ys, k, use_stab=True)
                same = all(np.array_equal(a, b) for a, b in zip(Z1, Z2))
                if same:
                    res.check(q2 - q1 == sft, 'shift.orth', cs, lambda: 'exponent moved by %r, shift %d' % (q2 - q1, sft), tags + ['shift'])
                else:
                    # tolerated only as the log2 boundary case: some core exactly doubled/halved with the exponent compensating
                    tot = 0
                    okb = True
                    for a, b in zip(Z1, Z2):
                        if np.array_equal(a, b):
                            continue
                        if np.array_equal(a * 2.0, b):
                            tot += 1
                        elif np.array_equal(a, b * 2.0):
                            tot -= 1
                        else:
                            okb = False
                    res.check(okb and q2 + tot - q1 == sft, 'shift.orth', cs,
                              'stabilised orthogonalisation of the shifted tensor is not the same cores with a shifted exponent', tags + ['shift'])
    return res


def _shift_ok(res, case, clause, a, b, want, tags):
    (v1, p1), (v2, p2) = a, b
    if v1 == v2:
        res.check(p2 - p1 == want, clause, case, lambda: 'exponent moved by %r, expected %r' % (p2 - p1, want), tags + ['shift'])
    else:
        # boundary of floor(log2): mantissa exactly doubled / halved and the exponent compensates
        ok = (v2 == 2 * v1 and p2 - p1 == want - 1) or (2 * v2 == v1 and p2 - p1 == want + 1) or \
             (v2 * v2 == 2 * v1 * v1 and False)
        res.check(ok, clause, case, lambda: 'mantissa changed from %r to %r (exponents %r -> %r)' % (v1, v2, p1, p2), tags + ['shift'])


CHECKERS = {'config': check_config}


def strata(tier, seed):
    ds = [2, 3, 10, 100] if tier == 'quick' else [2, 3, 10, 100, 1000, 3000]
    Es = [-30000, -1100, -1000, -300, 0, 300, 1000, 1100, 30000]
    cs = []
    for d in ds:
        for r in ((1, 2, 3, 4) if d <= 10 else (1, 2, 3) if d <= 100 else (1, 2)):       # r = 4 = n^2: square / tall unfoldings in right-to-left sweeps
            for E in Es:
                for dist in ('even', 'first', 'last', 'alt', 'vee'):
                    for pat in (('pos', 'signed', 'deadch') if d <= 10 else ('pos', 'deadch') if (d <= 100 and r > 1 and dist == 'even') else ('pos',)):
                        if exps(d, E, dist) is None:
                            continue
                        cs.append(dict(d=d, r=r, E=E, dist=dist, pat=pat))
    if tier == 'quick':
        cs.append(dict(d=1000, r=2, E=-30000, dist='even', pat='pos'))
        cs.append(dict(d=1000, r=1, E=30000, dist='even', pat='pos'))
    small = [c for c in cs if c['d'] <= 100]
    big = [c for c in cs if c['d'] > 100]
    yield Stratum('d <= 100', small, 'config', size=len(small), chunk=2, bounds={'d': ds, 'E': Es})
    yield Stratum('d >= 1000', big, 'config', size=len(big), chunk=1, bounds={'d': [c['d'] for c in big][:1] + [max([c['d'] for c in big] or [0])]})
