"""C03 - TT-SVD, svd_matrix/full_matrix, matrix_skeleton / matrix_svd.  Mode L."""
import itertools
import warnings

import numpy as np
import teneva

from mc import ref, space
from mc.engine import Res, Stratum

ID = 'C03'
REGISTERED = True
LEVEL = 'exploration'
TECHNIQUE = ('exhaustive lattice enumeration over dense arrays (all small shapes x exact-rank/full-rank spectra x '
             'magnitudes) x caps x thresholds on both sides of every tail energy; all unit matrices for the index '
             'interleaving (complete by linearity); prescribed-spectrum matrices x every give_to/rel/hermitian')
LEVEL_TEXT = ('the TT-SVD error bound, cap and quasi-optimal ranks are decided on every configuration of a finite '
              'catalogue against the dense SVD of the input unfoldings, at thresholds bracketing every rank change and '
              'at magnitudes 1e-6..1e6 (the scale dependence is exactly what one fixed-size test cannot see)')
LEVEL_NOTE = ('bounded: d <= 4, n <= 4 (matrices up to 5x5, QTT-matrices up to 8x8); generic values from VERIF_SEED; '
              'NumPy SVD is the trusted reference; inequalities carry a 1e-9 relative margin')
RULE = ('arrays = product(shape, {exact TT-rank profile, full rank}, magnitude {1e-6,1,1e6}); per array caps 1..rmax+1,1e12 '
        'and e = every positive tail energy of every unfolding x(1 +- 4e-6) plus fixed values. Matrices = product(m, n, '
        'spectrum class) x give_to x rel x hermitian x caps x tails. Non-trivial: a rank was really cut (distinct by '
        'array/matrix, options, e, cap).')
ASSUMPTIONS = ['zero arrays belong to C11', 'rank minimality is judged with thresholds 4e-6 (relative) away from breakpoints']


def _arr(c, seed):
    if c['kind'] == 'tt':
        A = ref.dense(space.tt(c['shape'], c['ranks'], 'gen', seed, tag=3))
    elif c['kind'] == 'int':
        A = ref.dense(space.tt(c['shape'], c['ranks'], 'intA', seed))
    else:
        sh = c['shape']
        A = space.core('gen', 1, int(np.prod(sh)), 1, 9, seed, tag=len(sh))[0, :, 0].reshape(sh)
    return A * float(c.get('mag', 1.0))


def _ranks(Z):
    return [int(G.shape[2]) for G in Z[:-1]]


def check_svd(c):
    res = Res()
    seed = c.get('seed', 0)
    A = _arr(c, seed)
    d = A.ndim
    nrm = float(np.linalg.norm(A))
    if nrm == 0:
        res.ev()
        res.skip('zero array')
        return res
    tl = [None] + [ref.tails(ref.unfold_sv(A, k)) for k in range(1, d)]
    A0 = A.copy()
    es = set()
    for k in range(1, d):
        for t in tl[k]:
            if t > 1e-9 * nrm:
                es.update({t * (1 - 4e-6), t * (1 + 4e-6)})
    es.update({1e-10 * nrm, 1e-3 * nrm, 0.1 * nrm, 0.7 * nrm})
    es = sorted(es)
    rmax = max(max(len(tl[k]) - 1 for k in range(1, d)), 1)
    caps = list(range(1, min(rmax, 5) + 2)) + [1e12]
    tags = ['mag=%g' % c.get('mag', 1.0), 'kind=' + c['kind']]
    for e in es:
        free = None
        for r in [1e12] + caps[:-1]:
            case = dict(c, e=float(e), r=r)
            res.ev()
            with warnings.catch_warnings():
                warnings.simplefilter('ignore')
                Z = teneva.svd(A, e, r)
            why = ref.wellformed(Z, list(A.shape))
            if not res.check(why is None and ref.finite(Z), 'svd.shape', case, lambda: str(why), tags):
                continue
            res.check(np.array_equal(A, A0), 'svd.input_untouched', case, 'input array modified', tags)
            rk = _ranks(Z)
            if r == 1e12:
                free = rk
            cap = max(1, int(min(r, 10 ** 9)))
            res.check(all(q <= cap for q in rk), 'svd.cap', case, lambda: 'ranks %s cap %d' % (rk, cap), tags)
            err = float(np.linalg.norm(ref.dense(Z) - A))
            if free is not None and all(q <= cap for q in free):
                res.check(err <= e * np.sqrt(d - 1) * (1 + 1e-9) + 1e-13 * nrm, 'svd.bound', case,
                          lambda: '|A - TT| = %.6e > e*sqrt(d-1) = %.6e (ranks %s)' % (err, e * np.sqrt(d - 1), rk),
                          tags + ['bound'])
            for k, q in enumerate(rk):
                t = tl[k + 1]
                qs = [x for x in range(1, len(t)) if t[x] <= e * (1 - 1e-6)]
                if not qs:
                    res.skip('minimal: no rank clears the threshold with margin')
                    continue
                res.check(q <= qs[0], 'svd.minimal', case,
                          lambda: 'bond %d: rank %d > smallest rank %d with tail <= e=%.4e' % (k + 1, q, qs[0], e),
                          tags + ['minimal'])
            rss = float(np.sqrt(sum(tl[k + 1][min(q, len(tl[k + 1]) - 1)] ** 2 for k, q in enumerate(rk))))
            res.check(err <= rss * (1 + 1e-9) + 1e-12 * nrm, 'svd.rss', case,
                      lambda: '|A - TT| = %.6e > root-sum-square of best errors %.6e at ranks %s' % (err, rss, rk),
                      tags + ['rss'])
            if any(q < len(tl[k + 1]) - 1 for k, q in enumerate(rk)):
                res.nt(case)
            res.outcome(tuple(rk))
    # exact low rank comes back with exactly those ranks
    if c['kind'] in ('tt', 'int'):
        true = []
        okgap = True
        for k in range(1, d):
            s = ref.unfold_sv(A, k)
            q = int(np.sum(s > 1e-7 * s[0]))
            if q < len(s) and s[q] > 1e-12 * s[0]:
                okgap = False
            true.append(q)
        case = dict(c, e='1e-9*norm', r=1e12)
        res.ev()
        if okgap:
            Z = teneva.svd(A, 1e-9 * nrm)
            res.check(_ranks(Z) == true, 'svd.exact_ranks', case,
                      lambda: 'ranks %s, TT-ranks of the array %s' % (_ranks(Z), true), tags)
            err = float(np.linalg.norm(ref.dense(Z) - A))
            res.check(err <= 1e-11 * nrm * 100, 'svd.exact_value', case, lambda: 'rel err %.3e' % (err / nrm), tags)
        else:
            res.skip('exact: spectrum gap too small')
    return res


def _orth(n, seed, tag):
    G = space.core('gen', 1, n * n, 1, 4, seed, tag)[0, :, 0].reshape(n, n) + 2 * np.eye(n)
    Q, _ = np.linalg.qr(G)
    return Q


SPECTRA = {
    'tail_noise': lambda k: [1.0 / (1 + j) if j < max(1, k // 2) else 0.0 for j in range(k)],
    'distinct': lambda k: [2.0 ** (-j) * (1 + 0.1 * j) for j in range(k)],
    'repeated': lambda k: [1.0 if j < (k + 1) // 2 else 0.25 for j in range(k)],
    'zerotail': lambda k: [1.0 / (1 + j) if j < max(1, k - 1) else 0.0 for j in range(k)],
    'graded': lambda k: [10.0 ** (-3 * j) for j in range(k)],
    'flat': lambda k: [3.0] * k,
}


def check_matrix(c):
    res = Res()
    seed = c.get('seed', 0)
    m, n = c['m'], c['n']
    k = min(m, n)
    s = np.array(SPECTRA[c['spec']](k)) * c.get('mag', 1.0)
    herm = c['herm']
    if herm:
        Q = _orth(m, seed, 1)
        hs = c.get('hs', 'alt')          # sign pattern of the eigenvalues, listed by decreasing modulus
        sign = np.array([(1 if j % 2 == 0 else -1) if hs == 'alt' else (-1 if (j == 0 or hs == 'neg') else 1) for j in range(k)])
        A = (Q * (s * sign)) @ Q.T
        A = (A + A.T) / 2
    elif c.get('nearsym'):
        Q = _orth(m, seed, 1)
        A = (Q * s) @ Q.T
        A = (A + A.T) / 2 + c['nearsym'] * space.core('gen', 1, m, n, 7, seed)[0]        # symmetric up to a small perturbation, NOT symmetric
    else:
        A = (_orth(m, seed, 1)[:, :k] * s) @ _orth(n, seed, 2)[:k, :]
    A0 = A.copy()
    sv = np.linalg.svd(A, compute_uv=False)
    tl = ref.tails(sv)
    nrm = float(np.linalg.norm(A))
    tags = ['spec=' + c['spec'], 'herm' if herm else 'gen']
    caps = list(range(1, k + 2)) + [1e12]
    for rel in (False, True):
        unit = sv[0] if rel else 1.0
        es = set()
        for t in tl:
            if t > 1e-12 * nrm:
                es.update({t / unit * (1 - 4e-6), t / unit * (1 + 4e-6)})
        es.update({1e-12 * nrm / unit, 10 * nrm / unit})
        for e in sorted(es):
            qs = [x for x in range(0, len(tl)) if tl[x] <= e * unit]
            qmin = max(1, qs[0])
            for r in caps:
                cap = max(1, int(min(r, 10 ** 9)))
                qexp = min(qmin, cap)
                variants = [('skeleton', g) for g in ('m', 'l', 'r')]
                if not rel and not herm:
                    variants.append(('svd', None))
                for fn, give in variants:
                    if fn == 'svd' and e * unit < 1e-4 * nrm:
                        # Gram-matrix mode knows a singular value t only to about u*sigma_1^2/t: below 1e-4*sigma_1 the 4e-6
                        # placement margin is inside that noise, so the size is not judged there (truncate's floor, C02)
                        continue
                    if herm and e * unit < 1e-8 * nrm:
                        continue      # the hermitian (eigh-based) SVD knows singular values to u*sigma_1 absolutely: same reasoning
                    case = dict(c, rel=rel, e=float(e), r=r, fn=fn, give_to=give)
                    res.ev()
                    with warnings.catch_warnings():
                        warnings.simplefilter('ignore')
                        if fn == 'skeleton':
                            Uf, Vf = teneva.matrix_skeleton(A, e, r, hermitian=herm, rel=rel, give_to=give)
                        else:
                            Uf, Vf = teneva.matrix_svd(A, e, r)
                    tg = tags + [fn, 'give=%s' % give]
                    res.check(np.array_equal(A, A0), 'mat.input_untouched', case, 'matrix modified', tg)
                    q = Uf.shape[1]
                    if not res.check(Uf.shape == (m, q) and Vf.shape == (q, n) and np.all(np.isfinite(Uf))
                                     and np.all(np.isfinite(Vf)), 'mat.shapes', case,
                                     lambda: 'U %s V %s' % (Uf.shape, Vf.shape), tg):
                        continue
                    res.check(q <= cap, 'mat.cap', case, lambda: 'inner size %d > cap %d' % (q, cap), tg)
                    res.check(q == qexp, 'mat.size', case,
                              lambda: 'inner size %d, expected %d (smallest size with tail <= e, cap %s)' % (q, qexp, r), tg)
                    err = float(np.linalg.norm(A - Uf @ Vf))
                    best = float(tl[min(q, len(tl) - 1)])
                    flo = (1e-7 if fn == 'svd' else 1e-13) * nrm
                    res.check(abs(err - best) <= 1e-9 * best + flo, 'mat.best', case,
                              lambda: '|A - UV| = %.6e, best rank-%d error %.6e' % (err, q, best), tg)
                    if fn == 'skeleton' and give == 'l':
                        g = np.abs(Vf @ Vf.T - np.eye(q)).max()
                        res.check(g <= 1e-12, 'mat.orth', case, lambda: 'V V^T - I = %.2e' % g, tg)
                    if fn == 'skeleton' and give == 'r':
                        g = np.abs(Uf.T @ Uf - np.eye(q)).max()
                        res.check(g <= 1e-12, 'mat.orth', case, lambda: 'U^T U - I = %.2e' % g, tg)
                    if fn == 'skeleton' and give == 'm':
                        # balanced: both factors carry sqrt(S)
                        su = np.linalg.norm(Uf, axis=0)
                        svn = np.linalg.norm(Vf, axis=1)
                        res.check(np.allclose(su, svn, rtol=1e-9, atol=1e-13 * max(1, nrm)), 'mat.balanced', case,
                                  lambda: 'column norms %s vs row norms %s' % (su, svn), tg)
                    if q < k:
                        res.nt(case)
                    res.outcome((fn, give, q))
    return res


def _interleave_ref(A, q):
    """Independent (explicit loops over bits) interleaving A[i,j] -> T[k_0..k_{q-1}], k_t = i_t + 2 j_t."""
    T = np.zeros([4] * q)
    for i in range(2 ** q):
        for j in range(2 ** q):
            idx = tuple(((i >> t) & 1) + 2 * ((j >> t) & 1) for t in range(q))
            T[idx] = A[i, j]
    return T


def check_qttmatrix(c):
    res = Res()
    seed = c.get('seed', 0)
    q = c['q']
    N = 2 ** q
    if c['kind'] == 'unit':
        A = np.zeros((N, N))
        A[c['i'], c['j']] = 1.0
    elif c['kind'] == 'gen':
        A = space.core('gen', 1, N * N, 1, 2, seed, tag=c.get('tag', 0))[0, :, 0].reshape(N, N)
    else:   # low-rank structure: identity / shift / ones
        A = {'eye': np.eye(N), 'shift': np.eye(N, k=1), 'ones': np.ones((N, N)),
             'lap': 2 * np.eye(N) - np.eye(N, k=1) - np.eye(N, k=-1)}[c['kind']]
    A0 = A.copy()
    T = _interleave_ref(A, q)
    nrm = float(np.linalg.norm(A))
    for e, r in c['er']:
        case = dict(c, e=e, r=r)
        res.ev()
        with warnings.catch_warnings():
            warnings.simplefilter('ignore')
            Y = teneva.svd_matrix(A, e, r)
        why = ref.wellformed(Y, [4] * q)
        if not res.check(why is None and ref.finite(Y), 'qm.shape', case, lambda: str(why)):
            continue
        res.check(np.array_equal(A, A0), 'qm.input_untouched', case, 'matrix modified')
        cap = max(1, int(min(r, 10 ** 9)))
        rk = _ranks(Y)
        res.check(all(x <= cap for x in rk), 'qm.cap', case, lambda: 'ranks %s' % rk)
        D = ref.dense(Y)
        B = teneva.full_matrix(Y)
        # full_matrix inverts the interleaving (on whatever the TT-tensor denotes)
        Bref = np.zeros((N, N))
        for i in range(N):
            for j in range(N):
                Bref[i, j] = D[tuple(((i >> t) & 1) + 2 * ((j >> t) & 1) for t in range(q))]
        res.check(B.shape == (N, N) and np.abs(B - Bref).max() <= 1e-13 * max(1, nrm), 'qm.full_matrix', case,
                  lambda: 'full_matrix differs from the bit-interleaved dense export by %.3e' % np.abs(B - Bref).max())
        # the other index convention inside a mode (order='C': mode index = 2 * row bit + column bit), and the default again afterwards:
        # an option of one call must not colour the next call
        Bc = teneva.full_matrix(Y, order='C')
        Bcref = np.zeros((N, N))
        for i in range(N):
            for j in range(N):
                Bcref[i, j] = D[tuple(2 * ((i >> t) & 1) + ((j >> t) & 1) for t in range(q))]
        res.check(Bc.shape == (N, N) and np.abs(Bc - Bcref).max() <= 1e-13 * max(1, nrm), 'qm.full_matrix.order_c', case,
                  lambda: "full_matrix(order='C') differs from its dense reference by %.3e" % np.abs(Bc - Bcref).max())
        B2 = teneva.full_matrix(Y)
        res.check(np.array_equal(B2, B), 'qm.full_matrix.again', case, "full_matrix with the default order changes after a call with order='C'")
        if r >= 1e9:
            err = float(np.linalg.norm(D - T))
            res.check(err <= e * np.sqrt(max(q - 1, 1)) * (1 + 1e-9) + 1e-13 * nrm, 'qm.roundtrip', case,
                      lambda: 'interleaved tensor differs by %.3e (e=%.1e)' % (err, e), ['qm'])
            for k in range(1, q):
                t = ref.tails(ref.unfold_sv(T, k))
                qs = [x for x in range(1, len(t)) if t[x] <= e * (1 - 1e-6)]
                if qs:
                    res.check(rk[k - 1] <= qs[0], 'qm.minimal', case,
                              lambda: 'bond %d rank %d > %d' % (k, rk[k - 1], qs[0]))
        res.nt(case)
    return res


def check_forms(c):
    """Equivalent argument forms give the same factorisation: integer-typed / float32 / Fortran-ordered / strided arrays,
    NumPy scalars for e and r."""
    res = Res()
    seed = c.get('seed', 0)
    A = np.round(_arr(dict(c, kind='tt', mag=1.0), seed) * 8)          # integer-valued float array
    if c.get('nonneg'):
        A = np.abs(A)
    nrm = float(np.linalg.norm(A))
    for e, r in ((1e-10, 1e12), (0.3 * nrm, 1e12), (1e-10, 2)):
        res.ev()
        case = dict(c, e=e, r=r)
        base = teneva.svd(A, e, r)
        forms = {'int64': A.astype(np.int64), 'int32': A.astype(np.int32), 'fortran': np.asfortranarray(A), 'float32': A.astype(np.float32)}
        if np.abs(A).max() < 120:
            forms['int8'] = A.astype(np.int8)
            forms['int16'] = A.astype(np.int16)
        if A.min() >= 0 and A.max() < 250:
            forms['uint8'] = A.astype(np.uint8)
        big = np.zeros(tuple(2 * s for s in A.shape))
        view = big[tuple(slice(0, 2 * s, 2) for s in A.shape)]
        view[...] = A
        forms['strided'] = view
        for nm, X in forms.items():
            if nm == 'float32' and e < 1e-4 * nrm:
                continue          # single-precision noise is above such a threshold: the ranks legitimately differ
            with warnings.catch_warnings():
                warnings.simplefilter('ignore')
                try:
                    Z = teneva.svd(X, e, r)
                except Exception as ex:
                    res.fail('forms.raised', dict(case, form=nm), 'svd raised %s for a %s array' % (type(ex).__name__, nm), ['forms'])
                    continue
            ok = ref.wellformed(Z, list(A.shape)) is None and [G.shape for G in Z] == [G.shape for G in base]
            tol = (1e-5 if nm == 'float32' else 1e-12) * max(nrm, 1e-300)
            res.check(ok and float(np.linalg.norm(ref.dense(Z) - ref.dense(base))) <= tol, 'forms.svd', dict(case, form=nm),
                      lambda: 'svd of the %s form differs from the float64 C-ordered one' % nm, ['forms'])
        with warnings.catch_warnings():
            warnings.simplefilter('ignore')
            Z2 = teneva.svd(A, np.float64(e), np.int64(min(r, 10 ** 9)) if r < 1e11 else np.float64(r))
        res.check(ref.core_bytes(Z2) == ref.core_bytes(base), 'forms.numpy_scalars', case, 'NumPy scalars for e / r change the result', ['forms'])
        if A.ndim == 2:
            M = A
            for fn in ('matrix_svd', 'matrix_skeleton'):
                U0, V0 = getattr(teneva, fn)(M, e, r)
                for nm, X in (('int64', M.astype(np.int64)), ('fortran', np.asfortranarray(M)), ('strided', view)):
                    with warnings.catch_warnings():
                        warnings.simplefilter('ignore')
                        U1, V1 = getattr(teneva, fn)(X, e, r)
                    res.check(U1.shape == U0.shape and np.abs(U1 @ V1 - U0 @ V0).max() <= 1e-10 * max(nrm, 1e-300), 'forms.' + fn, dict(case, form=nm),
                              lambda: '%s of the %s form differs' % (fn, nm), ['forms'])
    res.nt(('forms', tuple(c['shape']), tuple(c['ranks'])))
    return res


CHECKERS = {'svd': check_svd, 'matrix': check_matrix, 'qttmatrix': check_qttmatrix, 'forms': check_forms}


def _arrays(tier, seed):
    out = []
    mags = [1e-6, 1.0, 1e6]
    if tier == 'quick':
        plan = [(2, [1, 2, 3, 4], [1, 2, 3]), (3, [1, 2, 3], [1, 2, 3]), (4, [2, 3], [2])]
    else:
        plan = [(2, [1, 2, 3, 4, 5, 6, 7], [1, 2, 3, 4, 5]), (3, [1, 2, 3, 4], [1, 2, 3, 4]), (4, [1, 2, 3], [1, 2, 3]), (5, [2, 3], [1, 2, 3])]
    for d, ns, rs in plan:
        for sh in space.shapes([d], ns):
            for mag in mags:
                out.append(dict(kind='full', shape=sh, mag=mag, seed=seed))
            for rk in space.rank_profiles(d, rs):
                for mag in mags:
                    out.append(dict(kind='tt', shape=sh, ranks=rk, mag=mag, seed=seed))
                out.append(dict(kind='int', shape=sh, ranks=rk, mag=1.0, seed=seed))
    # strongly rectangular unfoldings (size-dependent code paths: a first unfolding >= 64x wider than tall)
    wide = [([400, 6], [1, 3, 1]), ([300, 5], [1, 2, 1]), ([12, 12], [1, 3, 1]), ([2, 150], [1, 2, 1]), ([3, 5, 6, 7], [1, 2, 3, 2, 1]), ([4, 4, 4, 4, 4], [1, 2, 3, 3, 2, 1]), ([2] * 8, [1, 2, 2, 3, 3, 2, 2, 2, 1]),
            ([1, 100], [1, 1, 1]), ([150, 2], [1, 2, 1])]
    for sh, rk in wide:
        for mag in mags:
            out.append(dict(kind='tt', shape=sh, ranks=rk, mag=mag, seed=seed))
        out.append(dict(kind='full', shape=sh, mag=1.0, seed=seed) if int(np.prod(sh)) <= 400 else dict(kind='int', shape=sh, ranks=rk, mag=1.0, seed=seed))
    return out


def _matrices(tier, seed):
    out = []
    top = 4 if tier == 'quick' else 9
    for m in range(1, top + 1):
        for n in range(1, top + 1):
            for spec in SPECTRA:
                for mag in ([1.0] if tier == 'quick' else [1e-6, 1.0, 1e6]):
                    out.append(dict(m=m, n=n, spec=spec, herm=False, mag=mag, seed=seed))
                    if m == n:
                        out.append(dict(m=m, n=n, spec=spec, herm=True, mag=mag, seed=seed))
                        if m >= 2:
                            out.append(dict(m=m, n=n, spec=spec, herm=True, mag=mag, seed=seed, hs='negfirst'))     # the dominant eigenvalue is the negative one
                            out.append(dict(m=m, n=n, spec=spec, herm=True, mag=mag, seed=seed, hs='neg'))          # negative definite
    for (m, n) in ((400, 6), (300, 5), (6, 400), (200, 2), (70, 2)):           # rows > 32 x columns (and the transpose)
        for spec in ('tail_noise', 'zerotail', 'graded', 'distinct'):
            out.append(dict(m=m, n=n, spec=spec, herm=False, mag=1.0, seed=seed))
    for m in (3, 5, 12):
        for eps in (1e-6, 1e-7, 1e-9):
            for spec in ('distinct', 'graded'):
                out.append(dict(m=m, n=m, spec=spec, herm=False, mag=1.0, seed=seed, nearsym=eps))
    return out


def _qm(tier, seed):
    out = []
    er = [(1e-12, 1e12), (1e-3, 1e12), (0.5, 1e12), (1e-12, 1), (1e-12, 2), (1e-12, 3)]
    for q in ([1, 2, 3] if tier == 'quick' else [1, 2, 3, 4]):
        N = 2 ** q
        for i in range(N):
            for j in range(N):
                out.append(dict(q=q, kind='unit', i=i, j=j, er=er[:1] + er[3:5], seed=seed))
        for kind in ('gen', 'eye', 'shift', 'ones', 'lap'):
            out.append(dict(q=q, kind=kind, er=er, seed=seed))
        if tier != 'quick':
            for tag in (1, 2, 3):
                out.append(dict(q=q, kind='gen', tag=tag, er=er, seed=seed))
    return out


def strata(tier, seed):
    arrs = _arrays(tier, seed)
    yield Stratum('tt-svd', arrs, 'svd', size=len(arrs), chunk=8,
                  bounds={'d': [2, 4 if tier == 'quick' else 5], 'magnitudes': [1e-6, 1, 1e6]})
    ms = _matrices(tier, seed)
    yield Stratum('matrix-factorisations', ms, 'matrix', seq=True, size=len(ms), chunk=4,
                  bounds={'m,n': '1..%d' % (4 if tier == 'quick' else 9), 'give_to': ['m', 'l', 'r'], 'rel': [0, 1]})
    fm = [dict(shape=sh, ranks=rk, seed=seed, nonneg=nn) for sh, rk in (([4, 5], [1, 3, 1]), ([3, 4, 3], [1, 2, 3, 1]), ([2, 3, 2, 3], [1, 2, 3, 2, 1]), ([5, 1, 4], [1, 2, 2, 1]), ([6, 6], [1, 2, 1])) for nn in (False, True)]
    yield Stratum('argument forms', fm, 'forms', seq=True, size=len(fm), chunk=1, bounds={'forms': ['int64', 'int32', 'float32', 'fortran', 'strided', 'numpy scalars']})
    qm = _qm(tier, seed)
    yield Stratum('qtt-matrix-interleaving', qm, 'qttmatrix', seq=True, size=len(qm), chunk=16,
                  bounds={'q': [1, 2, 3] if tier == 'quick' else [1, 2, 3, 4], 'unit matrices': 'all 4^q'})
