"""C20 - incomplete TT-SVD recovers low-rank tensors from its structured samples.  Mode L."""
import itertools
import warnings

import numpy as np
import teneva

from mc import ref, space
from mc.engine import Res, Stratum

ID = 'C20'
REGISTERED = True
LEVEL = 'exploration'
TECHNIQUE = ('exhaustive lattice enumeration: shapes with n_k in m..m+2 x target rank x expected rank m >= rho x caps x '
             'sampler seeds x value patterns, conditioning guard computed from the true interface matrices, dense comparison')
LEVEL_TEXT = ('every configuration of the bounded product is run through sample_tt -> svd_incomplete on the real code and the '
              'result is compared with the dense target; ill-conditioned sample sets (measured on the true left/right '
              'interface matrices at the sampled prefixes/suffixes) are counted as skipped and never failed; a sample set that lacks the advertised '
              'layout or repeats a prefix although every mode size is >= m is a violation, not a skip')
LEVEL_NOTE = ('bounded: d <= 4 (6 thorough), rho <= 3 (5 thorough), non-uniform rank profiles from a catalogue, m <= rho+2, n <= m+2, sampler seeds 0..2 (0..9 thorough), long trains to d = 70; "almost all tensors" is covered at the catalogue '
              'points only (one generic pattern per VERIF_SEED + an integer pattern); tolerance 1e-8 relative')
RULE = ('cases = product(d, rho, m, shape in {m..m+2}^d (corner shapes for d=4), cap, sampler seed, pattern); non-trivial: '
        'the conditioning guard passed and the cap is >= rho so that recovery is claimed; distinct = the configuration.')
ASSUMPTIONS = ['every mode size >= m (precondition of the property)',
               'sample sets whose true interface matrices have sigma_min/sigma_max < 1e-4 are outside "almost all"']


def check(c):
    res = Res()
    seed = c.get('seed', 0)
    shape, rho, m = c['shape'], c['rho'], c['m']
    d = len(shape)
    prof = c.get('ranks') or [1] + [rho] * (d - 1) + [1]            # non-uniform profiles: rho is their maximum
    cores = space.tt(shape, prof, c['pat'] if c['pat'] != 'stab' else 'gen', seed, tag=81)
    if c['pat'] == 'stab':          # identity slices plus a perturbation: interface vectors stay O(1) along very long trains
        cores = [0.3 * G + np.eye(G.shape[0], G.shape[2])[:, None, :] for G in cores]
    long_ = bool(c.get('long'))
    T = None if long_ else ref.dense(cores)
    nT = float(np.sqrt(ref.tt_dot(cores, cores))) if long_ else float(np.linalg.norm(T))
    tags = ['pat=' + c['pat']]
    for gs in c['gseeds']:
        with warnings.catch_warnings():
            warnings.simplefilter('ignore')
            sd = np.random.default_rng(int(gs[4:])) if isinstance(gs, str) else gs       # 'gen:<k>' = a Generator object as seed
            I, idx, idx_many = teneva.sample_tt(shape, m, seed=sd)
        y = ref.tt_entries(cores, I) if long_ else T[tuple(I.T)]
        # conditioning guard on the true interfaces at the sampled prefixes / suffixes
        ok = nT > 0
        for k in range(d):
            blk = I[idx[k]:idx[k + 1]]
            len2 = idx_many[k]
            len1 = len(blk) // (shape[k] * len2)
            # the structured sample set for expected rank m has m prefixes (k > 0) and m suffixes (k < d-1): a thinner set is not
            # an "ill-conditioned" input to be excused, it is a sample set that does not have the advertised layout
            lay_ok = (len1 == (m if k > 0 else 1)) and (len2 == (m if k < d - 1 else 1))
            if not lay_ok:
                res.fail('samples.layout', dict(c, gseeds=[gs], mode=k), 'mode %d: %d prefixes / %d suffixes for expected rank m=%d' % (k, len1, len2, m),
                         tags + ['layout'])
                ok = False
                break
            if k > 0:
                pre = blk[:len1 * len2:len2, :k]
                L = np.array([_left(cores, p) for p in pre])
                s = np.linalg.svd(L, compute_uv=False)
                rl = prof[k]
                ok = ok and len(s) >= rl and L.shape[0] >= rl and s[rl - 1] >= 1e-4 * s[0] and s[rl - 1] > (1e-6 if not long_ else 1e-200) and np.linalg.matrix_rank(L) == min(L.shape[1], rl)
                if len({tuple(p) for p in pre}) != len(pre):
                    # with every mode size >= m the Latin-hypercube prefixes are distinct by construction: a repeated prefix is a defect of the
                    # sampler, not an ill-conditioned input to be excused
                    if min(shape) >= m:
                        res.fail('samples.distinct', dict(c, gseeds=[gs], mode=k), 'mode %d: repeated prefix among the %d sampled prefixes' % (k, len(pre)), tags + ['layout'])
                    ok = False
            if k < d - 1:
                suf = blk[:len2, k + 1:]
                R = np.array([_right(cores, q, k + 1) for q in suf])
                s = np.linalg.svd(R, compute_uv=False)
                rr = prof[k + 1]
                ok = ok and R.shape[0] >= rr and len(s) >= rr and s[rr - 1] >= 1e-4 * s[0] and s[rr - 1] > (1e-6 if not long_ else 1e-200)
                if len({tuple(q) for q in suf}) != len(suf):
                    if min(shape) >= m:
                        res.fail('samples.distinct', dict(c, gseeds=[gs], mode=k), 'mode %d: repeated suffix among the %d sampled suffixes' % (k, len(suf)), tags + ['layout'])
                    ok = False
        # true TT-ranks must be rho (otherwise the generating cores are not minimal)
        for k in range(1, d if not long_ else 1):
            sv = ref.unfold_sv(T, k)
            ok = ok and len(sv) >= prof[k] and sv[prof[k] - 1] > 1e-4 * sv[0] and (len(sv) == prof[k] or sv[prof[k]] < 1e-10 * sv[0])
        for cap in c['caps']:
            res.ev()
            case = dict(c, gseeds=[gs], caps=[cap])
            I0, y0 = I.copy(), y.copy()
            try:
                with warnings.catch_warnings():
                    warnings.simplefilter('ignore')
                    Z = teneva.svd_incomplete(I, y, idx, idx_many, e=1e-10, r=cap)
            except Exception as ex:
                res.fail('raised', case, 'svd_incomplete raised %s: %s' % (type(ex).__name__, str(ex)[:200]), tags + ['exception'])
                continue
            res.check(np.array_equal(I, I0) and np.array_equal(y, y0), 'input_untouched', case, 'samples modified', tags)
            why = ref.wellformed(Z, shape)
            if not res.check(why is None and ref.finite(Z), 'wellformed', case, lambda: str(why), tags):
                continue
            capi = max(1, int(min(cap, 10 ** 9)))
            rk = [G.shape[2] for G in Z[:-1]]
            res.check(all(q <= capi for q in rk), 'cap', case, lambda: 'ranks %s exceed cap %s' % (rk, cap), tags)
            if not ok:
                res.skip('ill-conditioned sample set / non-minimal target')
                continue
            if capi >= rho:
                if long_:
                    err = ref.tt_norm_diff(Z, cores) / nT
                else:
                    err = float(np.linalg.norm(ref.dense(Z) - T)) / nT
                res.check(err <= 1e-8, 'recover', case,
                          lambda: 'relative error %.3e (ranks %s, rho=%d, m=%d, cap=%s)' % (err, rk, rho, m, cap), tags + ['recover'])
                res.nt((shape, rho, m, cap, gs, c['pat']))
            res.outcome(tuple(rk))
        # equivalent argument forms of the sample set: other integer dtypes / lists for indices and block markers, float32-free lists for values
        if not long_ and ok and len(c['caps']) > 0:
            res.ev()
            cap = c['caps'][-1]
            with warnings.catch_warnings():
                warnings.simplefilter('ignore')
                try:
                    Z0 = teneva.svd_incomplete(I, y, idx, idx_many, e=1e-10, r=cap)
                except Exception:
                    continue            # already reported by the loop over caps
                okf = True
                for If, yf, xf, mf in ((I.astype(np.int32), y, idx, idx_many), (I, y, [int(x) for x in idx], [int(x) for x in idx_many]),
                                       (np.asfortranarray(I), np.array(y, copy=True), idx.astype(np.int32), idx_many.astype(np.int32)),
                                       (I, y, idx, idx_many.astype(float).astype(np.int64))):
                    try:
                        Z1 = teneva.svd_incomplete(If, yf, xf, mf, e=1e-10, r=np.float64(cap) if cap > 1e9 else np.int64(cap))
                        okf = okf and [G.shape for G in Z1] == [G.shape for G in Z0] and all(np.abs(a - b).max() <= 1e-10 * (1 + np.abs(b).max()) for a, b in zip(Z1, Z0))
                    except Exception:
                        okf = False
            res.check(bool(okf), 'forms', dict(c, gseeds=[gs]), 'an equivalent form of the sample set / block markers / cap changes (or breaks) the result', tags)
    return res


def _left(cores, p):
    L = np.ones((1, 1))
    for j, i in enumerate(p):
        L = L @ cores[j][:, i, :]
    return L[0]


def _right(cores, q, start):
    R = np.ones((1, 1))
    for j in range(len(cores) - 1, start - 1, -1):
        R = cores[j][:, q[j - start], :] @ R
    return R[:, 0]


CHECKERS = {'config': check}


def strata(tier, seed):
    cs = []
    for d in (2, 3, 4):
        for rho in (1, 2, 3):
            for m in (rho, rho + 1, rho + 2):
                if d <= 3:
                    shapes = [list(s) for s in itertools.product(range(m, m + 3), repeat=d)]
                    if tier == 'quick' and d == 3:
                        shapes = [s for s in shapes if len(set(s)) <= 2 and s[0] <= s[-1] + 1][:8]
                else:
                    shapes = [[m] * 4, [m + 1, m, m + 2, m], [m + 2] * 4] if tier != 'quick' else [[m] * 4, [m + 1, m, m + 2, m]]
                    if m > 4 and tier == 'quick':
                        continue
                for sh in shapes:
                    for pat in ('gen', 'intA'):
                        cs.append(dict(shape=sh, rho=rho, m=m, pat=pat, caps=[rho, float(rho), rho + 1, float(rho + 1), 1e12] + ([max(1, rho - 1)] if rho > 1 else []),
                                       gseeds=list(range(10)) if tier != 'quick' else [0, 1, 2], seed=seed))
    # a Generator object as seed; modes large enough that n_k * m exceeds 255; trains so long that a product of mode sizes
    # exceeds 2^63 (no dense tensor exists: the comparison runs through TT inner products)
    for sh, rho, m in (([4, 5, 6], 2, 3), ([5, 5], 2, 2), ([3, 4, 3, 4], 2, 2), ([4, 5, 6, 5], 3, 3), ([3, 3, 3], 2, 2)):     # Generator objects: blocks drawn independently
        cs.append(dict(shape=sh, rho=rho, m=m, pat='gen', caps=[rho, 1e12], gseeds=['gen:%d' % g for g in range(12 if tier == 'quick' else 40)], seed=seed))
    # non-uniform rank profiles (a rank-1 bond next to higher ones, growing and shrinking profiles)
    for sh, prof in (([3, 4, 3], [1, 1, 2, 1]), ([3, 4, 3], [1, 2, 1, 1]), ([4, 4, 4, 4], [1, 2, 3, 2, 1]), ([4, 4, 4, 4], [1, 3, 1, 3, 1]), ([3, 3, 3, 3], [1, 1, 2, 3, 1]),
                     ([4, 5, 4], [1, 3, 2, 1]), ([5, 4, 5], [1, 2, 3, 1])):
        rmax = max(prof)
        for m in ((rmax, rmax + 1) if tier == 'quick' else (rmax, rmax + 1, rmax + 2)):
            if min(sh) >= m:
                cs.append(dict(shape=sh, rho=rmax, ranks=prof, m=m, pat='gen', caps=[rmax, float(rmax), 1e12], gseeds=[0, 1, 2] if tier == 'quick' else list(range(8)), seed=seed))
    if tier != 'quick':
        for d in (5, 6):
            for rho in (1, 2, 3):
                for m in (rho, rho + 1):
                    for sh in ([m + 1] * d, [m + (j % 3) for j in range(d)]):
                        cs.append(dict(shape=sh, rho=rho, m=m, pat='gen', caps=[rho, 1e12], gseeds=[0, 1, 2], seed=seed))
        for rho in (4, 5):
            for sh in ([rho + 1] * 3, [rho, rho + 2, rho + 1], [rho + 2] * 2):
                cs.append(dict(shape=sh, rho=rho, m=rho, pat='gen', caps=[rho, rho + 1, 1e12], gseeds=[0, 1, 2, 3], seed=seed))
    for sh, rho, m in (([40, 50, 60], 2, 5), ([64, 64], 3, 4), ([12, 100], 2, 3), ([300, 7], 2, 2)):
        cs.append(dict(shape=sh, rho=rho, m=m, pat='gen', caps=[1e12], gseeds=[0], seed=seed))
    for n, dd in ((4, 34), (10, 21), (2, 70)):
        cs.append(dict(shape=[n] * dd, rho=2, m=2, pat='stab', caps=[2, 1e12], gseeds=[0, 1, 2], seed=seed, long=True))
    yield Stratum('configurations', cs, 'config', seq=True, size=len(cs), chunk=4,
                  bounds={'d': [2, 4], 'rho': [1, 3], 'm': 'rho..rho+2', 'n': 'm..m+2'})
