"""C02 - truncate: error <= e*||Y||, rank caps, quasi-minimal ranks; add_many.

Mode L.  Thresholds are never a grid: they are the breakpoints of the rank
function - analytically (tail energies of the dense unfoldings, both sides) and
empirically (bisection of the implementation's own piecewise-constant map
e -> returned ranks, both ends of every bracket)."""
import itertools
import warnings

import numpy as np
import teneva

from mc import ref, space
from mc.engine import Res, Stratum

ID = 'C02'
REGISTERED = True
LEVEL = 'exploration'
TECHNIQUE = ('exhaustive lattice enumeration: all shapes x rank profiles x spectrum classes x scales x '
             '4 flag combinations x all caps x every rank-changing threshold (analytic tail energies and '
             'bisected breakpoints of the implementation, both sides), dense-SVD reference')
LEVEL_TEXT = ('every structural configuration of a finite catalogue is executed on the real truncate / add_many '
              'and judged against the dense SVD of the input unfoldings; thresholds sit on both sides of every '
              'point where a rank changes, which is where off-by-one and wrong-factor bugs show')
LEVEL_NOTE = ('bounded: d <= 4, n <= 4, ranks <= 4; values: generic (seeded), rank-deficient, graded; '
              'inequalities tested with margin 1e-9 relative; rank-minimality only for breakpoints above the '
              'rounding floor of the Gram-matrix mode; NumPy SVD trusted as reference')
RULE = ('tensors = product(shape, rank profile, pattern {gen, dup, graded}, global scale 2^{-20,0,20}); per tensor '
        'all of is_eigh x use_stab, caps 1..rmax+1 and 1e12, thresholds = every positive tail energy of every '
        'unfolding at x(1 +- delta) plus fixed values plus bisected breakpoints. Non-trivial: the truncation really '
        'cut at least one rank (distinct = (tensor, flags, e, cap) with a cut).')
ASSUMPTIONS = [
    'orth=True (the documented default); orth=False makes no accuracy claim and is only covered by C11',
    'zero tensors are out of this quantifier (C11)',
    'breakpoints whose safety margin delta would exceed 1e-3 are below the rounding floor: used for bound/cap/rss, not for minimal',
]

U = 2.0 ** -53


def build(c, seed):
    pat = c['pat']
    if pat == 'deadch':        # an exactly zero rank channel in the middle of a bond (not the last one)
        Y = space.tt(c['shape'], c['ranks'], 'gen', seed, tag=c.get('tag', 0))
        for k in range(len(Y) - 1):
            if Y[k].shape[2] >= 2:
                Y[k][:, :, 0] = 0.0
        if c.get('scale'):
            Y[0] = Y[0] * 2.0 ** c['scale']
        return Y
    if pat in ('graded', 'steep'):
        # 'steep': singular values down to 1e-9 ... 1e-13 of the largest one - squared, they vanish against the total energy in double precision
        Y = space.tt(c['shape'], c['ranks'], 'gen', seed, tag=c.get('tag', 0))
        for k, G in enumerate(Y):
            r1, n, r2 = G.shape
            G *= (2.0 ** ((-6.0 if pat == 'graded' else -15.0) * np.arange(r2)))[None, None, :]
    else:
        Y = space.tt(c['shape'], c['ranks'], pat, seed, tag=c.get('tag', 0))
    if c.get('scale'):
        Y[0] = Y[0] * 2.0 ** c['scale']
    return Y


def analyse(Y):
    A = ref.dense(Y)
    d = len(Y)
    nrm = float(np.linalg.norm(A))
    tl = [None] + [ref.tails(ref.unfold_sv(A, k)) for k in range(1, d)]
    return A, nrm, tl


def _ranks(Z):
    return [int(G.shape[2]) for G in Z[:-1]]


def _trunc(Y, e, r, stab, eigh):
    with warnings.catch_warnings():
        warnings.simplefilter('ignore')
        return teneva.truncate(Y, e, r, orth=True, use_stab=stab, is_eigh=eigh)


def _judge(res, case, Y, A, nrm, tl, e, r, stab, eigh, free_ranks, cutset):
    d = len(Y)
    res.ev()
    tags = ['eigh' if eigh else 'svd', 'stab' if stab else 'plain']
    Yb = ref.core_bytes(Y)
    Z = _trunc(Y, e, r, stab, eigh)
    why = ref.wellformed(Z, [G.shape[1] for G in Y])
    if not res.check(why is None and ref.finite(Z), 'shape', case, lambda: 'result: %s' % why, tags):
        return None
    res.check(ref.core_bytes(Y) == Yb, 'input_untouched', case, 'truncate modified its argument', tags)
    rk = _ranks(Z)
    rin = _ranks(Y)
    cap = max(1, int(min(r, 10 ** 9)))
    res.check(all(q <= cap for q in rk), 'cap', case, lambda: 'ranks %s exceed cap %d' % (rk, cap), tags)
    res.check(all(q <= p for q, p in zip(rk, rin)), 'cap.input', case,
              lambda: 'ranks %s exceed input ranks %s' % (rk, rin), tags)
    err = float(np.linalg.norm(ref.dense(Z) - A))
    floor = (1e-9 if eigh else 1e-12) * nrm
    binds = any(q > cap for q in free_ranks) if free_ranks is not None else None
    if binds is False:
        res.check(err <= e * nrm * (1 + 1e-9) + floor, 'bound', case,
                  lambda: '|Z-Y| = %.6e > e*|Y| = %.6e (e=%.3e, ranks %s)' % (err, e * nrm, e, rk),
                  tags + ['bound'])
    rss = float(np.sqrt(sum(tl[k + 1][min(q, len(tl[k + 1]) - 1)] ** 2 for k, q in enumerate(rk))))
    res.check(err <= rss * (1 + 1e-9) + floor, 'rss', case,
              lambda: '|Z-Y| = %.6e > root-sum-square of best unfolding errors %.6e at ranks %s' % (err, rss, rk),
              tags + ['rss'])
    # quasi-minimality
    if e >= 1e-6 and nrm > 0:
        budget = e * nrm / np.sqrt(d - 1)
        for k, q in enumerate(rk):
            t = tl[k + 1]
            qs = [x for x in range(1, len(t)) if t[x] <= budget]
            qmin = qs[0] if qs else len(t) - 1
            # safety: the breakpoint just below the budget must be clear of it
            tq = t[qmin]
            # robust only if the perturbed tail still meets the budget (Gram mode knows t^2 to ~1e3*u*|Y|^2)
            if tq ** 2 + 1e3 * U * nrm ** 2 > budget ** 2 * (1 - 2e-6):
                res.skip('minimal: threshold within rounding of a breakpoint')
                continue
            res.check(q <= max(1, qmin), 'minimal', case,
                      lambda: 'bond %d: rank %d > smallest rank %d meeting the per-unfolding budget %.3e (e=%.3e)' % (
                          k + 1, q, qmin, budget, e), tags + ['minimal'])
    if any(q < p for q, p in zip(rk, rin)):
        cutset.add((e, cap, stab, eigh))
    res.outcome(tuple(rk))
    return rk


def thresholds(nrm, tl, d, extra=()):
    es = set()
    for k in range(1, d):
        for t in tl[k]:
            if t <= 0:
                continue
            e0 = t * np.sqrt(d - 1) / nrm
            dl = max(1e-6, 1e3 * U * (nrm / t) ** 2)
            if dl > 1e-3:
                dl = 1e-3
            for e in (e0 * (1 - 4 * dl), e0 * (1 + 4 * dl)):
                if 1e-14 < e < 1:
                    es.add(float(e))
    for e in (1e-12, 1e-8, 1e-4, 1e-2, 0.3, 0.9) + tuple(extra):
        es.add(e)
    return sorted(es)


def check_tensor(c):
    res = Res()
    seed = c.get('seed', 0)
    Y = build(c, seed)
    A, nrm, tl = analyse(Y)
    d = len(Y)
    if nrm == 0 or not np.isfinite(nrm):
        res.ev()
        res.skip('zero tensor')
        return res
    rmax = max(c['ranks'])
    caps = list(range(1, rmax + 2)) + [1.5, 2.6, 3.999, 0.7][:4 if rmax >= 3 else 2] + [1e12]      # non-integer caps: every rank <= max(1, r), i.e. the cap is cut, not rounded
    es = thresholds(nrm, tl, d)
    cut = set()
    for eigh in (True, False):
        for stab in (False, True):
            free = {}
            for e in es:
                case = dict(c, e=e, r=1e12, stab=stab, eigh=eigh)
                free[e] = _judge(res, case, Y, A, nrm, tl, e, 1e12, stab, eigh, [], cut)
            for e in es:
                if free[e] is None:
                    continue
                for r in caps[:-1]:
                    case = dict(c, e=e, r=r, stab=stab, eigh=eigh)
                    _judge(res, case, Y, A, nrm, tl, e, r, stab, eigh, free[e], cut)
            if c.get('bisect'):
                # breakpoints of the implementation's own rank function
                good = [e for e in es if free[e] is not None]
                for a, b in zip(good[:-1], good[1:]):
                    ra, rb = free[a], free[b]
                    if ra == rb:
                        continue
                    lo, hi, rlo, rhi = a, b, ra, rb
                    it = 0
                    while hi / lo > 1 + 1e-7 and it < 40:
                        mid = float(np.sqrt(lo * hi))
                        rm = _ranks(_trunc(Y, mid, 1e12, stab, eigh))
                        res.note('bisection_probe')
                        if rm == rlo:
                            lo = mid
                        else:
                            hi, rhi = mid, rm
                        it += 1
                    for e in (lo, hi):
                        case = dict(c, e=e, r=1e12, stab=stab, eigh=eigh, bisected=True)
                        _judge(res, case, Y, A, nrm, tl, e, 1e12, stab, eigh, [], cut)
    for key in cut:
        res.nt((c['shape'], c['ranks'], c['pat'], c.get('scale'), key))
    return res


def check_add_many(c):
    """Sums of several tensors / numbers: error recursion over the rounding steps."""
    res = Res()
    seed = c.get('seed', 0)
    shape, rk = c['shape'], c['ranks']
    items = []
    for j, it in enumerate(c['items']):
        if it == 'I':          # integer-typed cores (small integers stored as int64)
            items.append([G.astype(np.int64) for G in space.tt(shape, rk, 'intA', seed, tag=100 + j)])
        elif it == 'T':
            items.append(space.tt(shape, rk, 'gen', seed, tag=100 + j))
        else:
            items.append(it)
    d = len(shape)
    for e in c['es']:
        for r in c['caps']:
            case = dict(c, e=e, r=r)
            res.ev()
            with warnings.catch_warnings():
                warnings.simplefilter('ignore')
                Z = teneva.add_many(items, e=e, r=r, trunc_freq=c['freq'])
            if all(isinstance(x, (int, float)) for x in items):
                res.check(isinstance(Z, (int, float)) and Z == sum(items), 'add_many.numbers', case,
                          lambda: 'numbers only: %r' % (Z,))
                continue
            why = ref.wellformed(Z, shape)
            if not res.check(why is None and ref.finite(Z), 'add_many.shape', case, lambda: str(why)):
                continue
            # exact partial sums and the error recursion
            P = np.zeros(shape)
            E = 0.0
            first = items[0]
            P = P + (first if isinstance(first, (int, float)) else ref.dense(first))
            is_num = isinstance(first, (int, float))
            for i, cur in enumerate(items[1:]):
                P = P + (cur if isinstance(cur, (int, float)) else ref.dense(cur))
                is_num = is_num and isinstance(cur, (int, float))
                if not is_num and (i + 1) % c['freq'] == 0:
                    E = E + e * (np.linalg.norm(P) + E)
            Efin = E + e * (np.linalg.norm(P) + E)
            cap = max(1, int(min(r, 10 ** 9)))
            rz = _ranks(Z)
            res.check(all(q <= cap for q in rz), 'add_many.cap', case, lambda: 'ranks %s cap %d' % (rz, cap))
            err = float(np.linalg.norm(ref.dense(Z) - P))
            # does the cap bind? compare with the uncapped run
            with warnings.catch_warnings():
                warnings.simplefilter('ignore')
                Zf = teneva.add_many(items, e=e, r=1e12, trunc_freq=c['freq'])
            if all(q <= cap for q in _ranks(Zf)):
                nP = float(np.linalg.norm(P))
                res.check(err <= Efin * (1 + 1e-9) + 1e-9 * max(nP, 1e-300) + 1e-13, 'add_many.bound', case,
                          lambda: '|sum - result| = %.4e > accumulated bound %.4e' % (err, Efin), ['add_many'])
                if sum(1 for x in items if not isinstance(x, (int, float))) >= 2:
                    res.nt(case)
    return res


def check_long(c):
    """Trains whose number of elements exceeds 2^63 (no dense tensor exists; any arithmetic on the product of the mode sizes overflows):
    the error bound through an own QR sweep on the difference train (ref.tt_norm_diff), ranks against the input ranks and the cap."""
    res = Res()
    seed = c.get('seed', 0)
    shape, rk = c['shape'], c['ranks']
    d = len(shape)
    if c.get('sigpert'):
        # a bond of rank 48 ... 64: a rank-4 signal plus a perturbation of relative size 1e-9 filling the other channels; small caps (<= rank / 4)
        # and the uncapped call must return the 4 channels the accuracy asks for
        S = space.tt(shape, [1] + [4] * (d - 1) + [1], 'gen', seed, tag=6)
        Pp = space.tt(shape, [1] + [rk[1] - 4] * (d - 1) + [1], 'gen', seed, tag=7)
        Yb = teneva.add(S, teneva.mul(Pp, 1e-9))
        A = ref.dense(Yb)
        nrm_ = float(np.linalg.norm(A))
        for eigh in (True, False):
            for stab in (False, True):
                for r in (12, 5, 4, 1e12):
                    res.ev()
                    case = dict(c, e=1e-3, r=r, stab=stab, eigh=eigh)
                    Z = _trunc(Yb, 1e-3, r, stab, eigh)
                    if not res.check(ref.wellformed(Z, shape) is None and ref.finite(Z), 'sigpert.shape', case, 'malformed', ['long']):
                        continue
                    err = float(np.linalg.norm(ref.dense(Z) - A))
                    res.check(all(q <= 4 for q in _ranks(Z)), 'sigpert.minimal', case, lambda: 'ranks %s for a rank-4 signal with a 1e-9 perturbation at e = 1e-3' % _ranks(Z),
                              ['minimal', 'eigh' if eigh else 'svd'])
                    res.check(err <= 1e-3 * nrm_, 'sigpert.bound', case, lambda: 'error %.3e > e |Y| = %.3e' % (err, 1e-3 * nrm_), ['bound'])
        res.nt((tuple(shape), 'sigpert'))
        return res
    base = space.tt(shape, rk, 'gen', seed, tag=5)
    Y = [0.3 * G + np.eye(G.shape[0], G.shape[2])[:, None, :] for G in base]          # identity slices plus a perturbation: norms stay moderate
    Y2 = teneva.add(Y, Y)                                                                     # doubled ranks, exactly reducible
    nrm = 2.0 * float(np.sqrt(ref.tt_dot(Y, Y)))
    for eigh in (True, False):
        for stab in (False, True):
            for e, r in ((1e-10, 1e12), (1e-3, 1e12), (1e-6, max(rk)), (1e-6, max(rk) + 1)):
                res.ev()
                case = dict(c, e=e, r=r, stab=stab, eigh=eigh)
                tags = ['eigh' if eigh else 'svd', 'stab' if stab else 'plain', 'long']
                Z = _trunc(Y2, e, r, stab, eigh)
                why = ref.wellformed(Z, shape)
                if not res.check(why is None and ref.finite(Z), 'long.shape', case, lambda: str(why), tags):
                    continue
                rz = _ranks(Z)
                res.check(all(q <= max(1, int(min(r, 10 ** 9))) for q in rz) and all(q <= p for q, p in zip(rz, _ranks(Y2))), 'long.cap', case, lambda: 'ranks %s' % rz, tags)
                err = ref.tt_norm_diff(Z, Y2)
                res.check(err <= e * nrm * (1 + 1e-9) + (1e-8 if eigh else 1e-11) * nrm, 'long.bound', case,
                          lambda: '|Z - Y| = %.3e > e |Y| = %.3e (ranks %s -> %s)' % (err, e * nrm, _ranks(Y2), rz), tags + ['bound'])
                # (the eigen-decomposition path knows a singular value only to sqrt(u) |Y|: below e = 1e-6 a channel of pure rounding noise may stay)
                res.check(e < 1e-6 or all(q <= p for q, p in zip(rz, rk[1:-1])), 'long.minimal', case, lambda: 'ranks %s above the ranks %s of the summand' % (rz, rk[1:-1]), tags + ['minimal'])
    res.nt((tuple(shape), tuple(rk)))
    return res


CHECKERS = {'long': check_long, 'tensor': check_tensor, 'add_many': check_add_many}


def _tensors(tier, seed):
    out = []
    if tier == 'quick':
        plan = [(2, [1, 2, 3], [1, 2, 3]), (3, [1, 2, 3], [1, 2, 3]), (4, [2, 3], [2, 3])]
        pats = ['gen', 'dup', 'graded']
        scales = [0]
    else:
        plan = [(2, [1, 2, 3, 4], [1, 2, 3, 4]), (3, [1, 2, 3, 4], [1, 2, 3, 4]), (4, [1, 2, 3], [1, 2, 3])]
        pats = ['gen', 'dup', 'graded', 'intA']
        scales = [0, -20, 20]
    for d, ns, rs in plan:
        for sh in space.shapes([d], ns):
            for rk in space.rank_profiles(d, rs):
                for pat in pats:
                    for sc in scales:
                        if sc and pat != 'gen':
                            continue
                        out.append(dict(shape=sh, ranks=rk, pat=pat, scale=sc, seed=seed))
    # strongly rectangular unfoldings and longer trains (size-dependent code paths)
    for sh, rk in (([2, 150], [1, 2, 1]), ([150, 2], [1, 2, 1]), ([3, 5, 6, 7], [1, 3, 4, 3, 1]), ([4, 4, 4, 4, 4], [1, 2, 3, 3, 2, 1]),
                   ([2] * 8, [1, 2, 3, 3, 3, 3, 2, 2, 1]), ([1, 40, 1], [1, 3, 3, 1])):
        for pat in ('gen', 'graded'):
            out.append(dict(shape=sh, ranks=rk, pat=pat, scale=0, seed=seed))
    # global scale on a few tensors in quick as well
    if tier == 'quick':
        for sc in (-20, 20):
            for sh, rk in (([3, 3], [1, 3, 1]), ([2, 3, 2], [1, 2, 2, 1]), ([3, 2, 3], [1, 3, 3, 1])):
                out.append(dict(shape=sh, ranks=rk, pat='gen', scale=sc, seed=seed))
    # an exactly zero rank channel; a size-1 mode joined by rank-1 bonds on both sides (a scalar core) in the interior
    for sh, rk in (([3, 3], [1, 3, 1]), ([3, 2, 3], [1, 3, 3, 1]), ([2, 3, 2, 2], [1, 2, 3, 2, 1])):
        out.append(dict(shape=sh, ranks=rk, pat='deadch', scale=0, seed=seed))
    for sh, rk in (([3, 3, 1, 3], [1, 3, 1, 1, 1]), ([3, 3, 1, 2], [1, 2, 1, 1, 1]), ([2, 3, 3, 1, 2], [1, 2, 3, 1, 1, 1]), ([3, 1, 3, 1, 2], [1, 1, 1, 1, 1, 1]),
                   ([4, 4, 1], [1, 4, 1, 1]), ([1, 4, 4], [1, 1, 4, 1])):
        for pat in ('gen', 'graded'):
            for sc in (0, -12, 12):
                out.append(dict(shape=sh, ranks=rk, pat=pat, scale=sc, seed=seed))
    for sh, rk in (([3, 3], [1, 3, 1]), ([4, 5], [1, 4, 1]), ([3, 2, 3], [1, 3, 3, 1]), ([4, 4, 4], [1, 3, 3, 1]), ([2, 3, 2, 2], [1, 2, 3, 2, 1])):
        for sc in (0, 30):
            out.append(dict(shape=sh, ranks=rk, pat='steep', scale=sc, seed=seed))
    # extreme scales (absolute tolerances hidden in the code show only here) incl. exactly square unfoldings r_k = n_k r_{k+1}
    for sc in (-40, -70, 60, -300, 300):
        for sh, rk in (([3, 3], [1, 3, 1]), ([2, 2, 2], [1, 2, 2, 1]), ([5, 6, 4], [1, 4, 4, 1]), ([3, 2, 3], [1, 3, 3, 1]), ([2, 3, 2, 2], [1, 2, 4, 2, 1])):
            out.append(dict(shape=sh, ranks=rk, pat='gen', scale=sc, seed=seed))
    return out


def _add_many(tier, seed):
    out = []
    alph = ['T', 2, -0.5]
    maxlen = 4 if tier == 'quick' else 5
    for L in range(1, maxlen + 1):
        for items in itertools.product(alph, repeat=L):
            if tier == 'quick' and L == 4 and items.count('T') < 2:
                continue
            for freq in ([1, 2, 15] if tier == 'quick' else [1, 2, 3, 15]):
                for sh, rk in (([3, 3], [1, 2, 1]), ([2, 3, 2], [1, 2, 2, 1])):
                    out.append(dict(shape=sh, ranks=rk, items=list(items), freq=freq,
                                    es=[1e-10, 1e-2, 0.2], caps=[1, 2, 1e12], seed=seed))
    for items in (['I', 'T'], ['I', 'T', 'T'], ['T', 'I'], ['I', 0.5, 'T'], ['I', 'I', 'T', 2]):
        for sh, rk in (([3, 3], [1, 2, 1]), ([2, 3, 2], [1, 2, 2, 1]), ([2, 2, 3, 2], [1, 2, 2, 2, 1])):
            out.append(dict(shape=sh, ranks=rk, items=items, freq=2, es=[1e-10, 1e-2], caps=[2, 1e12], seed=seed))
    # long lists: the periodic intermediate rounding (every trunc_freq summands, default 15) really happens
    for L in (15, 16, 17, 31, 32):
        for freq in (15, 4):
            for sh, rk in (([3, 3], [1, 2, 1]), ([2, 3, 2], [1, 2, 2, 1])):
                items = ['T' if j % 5 != 3 else (2 if j % 2 else -0.5) for j in range(L)]
                out.append(dict(shape=sh, ranks=rk, items=items, freq=freq, es=[1e-10, 1e-2], caps=[1, 2, 1e12], seed=seed))
    return out


def strata(tier, seed):
    ts = _tensors(tier, seed)
    small = [t for t in ts if len(t['shape']) <= 3 and max(t['shape']) <= 5]
    big = [t for t in ts if not (len(t['shape']) <= 3 and max(t['shape']) <= 5)]
    if tier == 'thorough':
        small = [dict(t, bisect=True) for t in small]
    else:
        small = [dict(t, bisect=(len(t['shape']) == 2 or t['pat'] == 'gen')) for t in small]
    yield Stratum('truncate d<=3', small, 'tensor', size=len(small), chunk=4,
                  bounds={'d': [2, 3], 'flags': 4, 'caps': '1..rmax+1, 1e12', 'thresholds': 'all breakpoints +- delta, bisected'})
    yield Stratum('truncate d>=4 and wide shapes', big, 'tensor', size=len(big), chunk=4, bounds={'d': [4, 8], 'wide': '[2,150], [150,2], [3,5,6,7], [4]^5, [2]^8, [1,40,1]'})
    lg = [dict(shape=sh, ranks=[1] + [r_] * (len(sh) - 1) + [1], seed=seed) for sh, r_ in (([8] * 22, 2), ([40] * 13, 2), ([2] * 70, 3), ([10] * 20, 2), ([16] * 17, 2), ([3] * 45, 2))]
    lg += [dict(shape=[60, 60], ranks=[1, 48, 1], sigpert=True, seed=seed), dict(shape=[70, 66], ranks=[1, 64, 1], sigpert=True, seed=seed), dict(shape=[8, 8, 8], ranks=[1, 8, 8, 1], sigpert=True, seed=seed)]
    yield Stratum('trains with more than 2^63 elements', lg, 'long', size=len(lg), chunk=1, bounds={'elements': 'up to 40^13', 'd': [13, 70]})
    am = _add_many(tier, seed)
    yield Stratum('add_many', am, 'add_many', size=len(am), chunk=8,
                  bounds={'list length': '1..%d' % (4 if tier == 'quick' else 5), 'items': ['T', 2, -0.5]})
