"""C18 - grid index <-> point maps round-trip exactly and clamp to the box.  Mode L."""
import itertools
import math
import warnings
from fractions import Fraction

import numpy as np
import teneva

from mc import ref, space
from mc.engine import Res, Stratum

ID = 'C18'
REGISTERED = True
LEVEL = 'exploration'
TECHNIQUE = ('exhaustive lattice enumeration: box catalogue (9 magnitudes/offsets + per-dimension mixes) x both grid kinds x ALL '
             'grid sizes 2..129 x ALL indices; point catalogue (nodes, cell midpoints +- epsilon, outside, +-inf); exact rational '
             'reference for the affine scaling on dyadic boxes; all shapes in {1..4}^d for the flat grid')
LEVEL_TEXT = ('index -> point -> index is checked for every index of every grid size up to 129 on every box (exact equality), '
              'nearest-node and clamping behaviour at every cell boundary, option broadcasting and batch/single consistency '
              'bitwise; the space is small enough to enumerate completely, which is what catches a rint/floor or sign slip at one n')
LEVEL_NOTE = ('bounded: n <= 129 (257 thorough), d <= 4; in-box and end-point claims to 4 ulp of max(|a|,|b|) (the Chebyshev formula '
              'rounds); nearest-node judged with the query 1e-9 of a cell away from the midpoint')
RULE = ('cases = product(box, kind, n); per case every index and the whole point catalogue. Non-trivial: every (box, kind, n) with '
        'n >= 3 (interior nodes exist); distinct = (box, kind, n).')
ASSUMPTIONS = ['a < b per dimension', 'NaN points are not valid inputs']

BOXES = {
    'unit': (0.0, 1.0), 'sym': (-1.0, 1.0), 'asym': (-3.0, 7.0), 'small': (0.1, 0.3), 'neg': (-7.3, -2.1), 'offset': (1e6, 1e6 + 1),
    'tiny': (1e-9, 2e-9), 'huge': (-1e10, 1e10), 'extreme': (-1e300, 1e300),
    'odd1': (-0.3, 1.1), 'odd2': (0.1, 0.7), 'third': (1.0 / 3.0, 2.0 / 3.0),
}


def ulp4(a, b):
    return 4 * np.spacing(max(abs(a), abs(b)))


def check_grid(c):
    res = Res()
    a, b = BOXES[c['box']]
    kind = c['kind']
    tags = ['box=' + c['box'], 'kind=' + kind]
    for n in c['ns']:
        res.ev()
        case = dict(box=c['box'], kind=kind, ns=[n])
        I = np.arange(n).reshape(-1, 1)
        with warnings.catch_warnings():
            warnings.simplefilter('ignore')
            X = teneva.ind_to_poi(I, a, b, n, kind)
        if not res.check(isinstance(X, np.ndarray) and X.shape == (n, 1) and np.all(np.isfinite(X)), 'shape', case, lambda: 'ind_to_poi returned %r' % (X,), tags):
            continue
        x = X[:, 0]
        t = ulp4(a, b)
        res.check(np.all(x >= a - t) and np.all(x <= b + t), 'inbox', case,
                  lambda: 'point outside the box by %.3e' % max((a - x).max(), (x - b).max()), tags)
        lo, hi = (x[0], x[-1]) if kind == 'uni' else (x[-1], x[0])
        res.check(abs(lo - a) <= t and abs(hi - b) <= t, 'ends', case, lambda: 'ends map to (%r, %r), box (%r, %r)' % (lo, hi, a, b), tags)
        mono = np.all(np.diff(x) > 0) if kind == 'uni' else np.all(np.diff(x) < 0)
        if (b - a) / (n - 1) > 64 * np.spacing(max(abs(a), abs(b))):
            res.check(mono, 'monotone', case, 'nodes are not strictly ordered', tags)
        with warnings.catch_warnings():
            warnings.simplefilter('ignore')
            J = teneva.poi_to_ind(X, a, b, n, kind)
        resolvable = (b - a) / (n - 1) ** (1 if kind == 'uni' else 2) > 1e4 * np.spacing(max(abs(a), abs(b)))
        if resolvable:
            res.check(J.shape == (n, 1) and J.dtype.kind in 'iu' and np.array_equal(J[:, 0], np.arange(n)), 'roundtrip', case,
                      lambda: 'index -> point -> index fails at %s' % np.nonzero(J[:, 0] != np.arange(n))[0][:5], tags + ['roundtrip'])
        else:
            res.skip('cell width below 1e4 ulp of the box magnitude')
        # pipeline: the library's own flat grid fed directly into the index -> point map (dtype and all)
        with warnings.catch_warnings():
            warnings.simplefilter('ignore')
            If = teneva.grid_flat([n])
            Xf = teneva.ind_to_poi(If, a, b, n, kind)
            Xf2 = teneva.ind_to_poi(teneva.grid_flat(n).reshape(-1, 1), a, b, n, kind)
        res.check(np.array_equal(np.asarray(Xf, dtype=float), X) and np.array_equal(np.asarray(Xf2, dtype=float), X), 'pipeline.flat_to_poi', case,
                  'ind_to_poi(grid_flat(n)) differs from ind_to_poi(arange(n))', tags)
        # equivalent argument forms: float / NumPy-integer grid size, list / other integer dtypes for the indices, NumPy-float bounds
        with warnings.catch_warnings():
            warnings.simplefilter('ignore')
            okf = True
            for nf in (float(n), np.int64(n), np.int32(n), np.float64(n)):
                okf = okf and np.array_equal(teneva.ind_to_poi(I, a, b, nf, kind), X) and np.array_equal(teneva.poi_to_ind(X, a, b, nf, kind), J)
            okf = okf and np.array_equal(teneva.ind_to_poi(I.tolist(), a, b, n, kind), X)
            okf = okf and np.array_equal(teneva.ind_to_poi(I.astype(np.int32), np.float64(a), np.float64(b), n, kind), X)
            if n <= 256:
                okf = okf and np.array_equal(teneva.ind_to_poi(I.astype(np.uint8), a, b, n, kind), X)
            okf = okf and np.array_equal(teneva.poi_to_ind(X.tolist(), a, b, n, kind), J)
            okf = okf and np.array_equal(teneva.poi_to_ind(np.asfortranarray(X), [a], [b], [n], kind), J)
        res.check(bool(okf), 'forms', case, 'an equivalent form of n / the bounds / the index array changes the map', tags)
        # single index / list / 1-D forms give the same bits
        i0 = n // 2
        one = teneva.ind_to_poi([i0], a, b, n, kind)
        res.check(np.ndim(one) == 1 and one[0] == x[i0], 'single', case, 'single index differs from the batch', tags)
        j1 = teneva.poi_to_ind([x[i0]], a, b, n, kind)
        if resolvable:
            res.check(np.ndim(j1) == 1 and j1[0] == i0, 'single.back', case, 'single point differs from the batch', tags)
        # ---- nearest node in the grid parameter; clamping ------------------------------------------------------------
        if n <= c.get('near_n', 40) and resolvable:
            qs, want = [], []
            sp8 = 8 * np.spacing(max(abs(a), abs(b)))
            if kind == 'uni':
                h = (b - a) / (n - 1)
                for i in range(n - 1):
                    xm = a + (i + 0.5) * h
                    for off, w in ((0.5 - 1e-6, i), (0.5 + 1e-6, i + 1), (0.25, i), (0.75, i + 1)):
                        q = a + (i + off) * h
                        if abs(q - xm) > sp8:          # the query must be distinguishable from the cell midpoint in floating point
                            qs.append(q)
                            want.append(w)
            else:
                for i in range(n - 1):
                    xm = math.cos(math.pi * (i + 0.5) / (n - 1)) * (b - a) / 2 + (b + a) / 2
                    for off, w in ((0.5 - 1e-6, i), (0.5 + 1e-6, i + 1), (0.25, i), (0.75, i + 1)):
                        th = math.pi * (i + off) / (n - 1)
                        q = math.cos(th) * (b - a) / 2 + (b + a) / 2
                        if abs(q - xm) > sp8 * max(1.0, abs(xm - (a + b) / 2) / max(b - a, 1e-300) * 4):
                            qs.append(q)
                            want.append(w)
            # only queries whose distance to the midpoint is resolvable in x
            Q = np.array(qs).reshape(-1, 1)
            with warnings.catch_warnings():
                warnings.simplefilter('ignore')
                G = teneva.poi_to_ind(Q, a, b, n, kind)[:, 0]
            okn = True
            bad = None
            for q, g, w in zip(qs, G, want):
                if kind == 'cheb' and (n - 1) ** 2 * 1e-6 * 0.3 < 1e4 * np.spacing(1.0):
                    continue
                if g != w:
                    # tolerate if the query is numerically at the midpoint
                    okn, bad = False, (q, int(g), w)
                    break
            res.check(okn, 'nearest', case, lambda: 'point %r mapped to index %d, nearest node is %d' % bad, tags + ['nearest'])
            w = b - a
            out = np.array([a - 0.3 * w, a - 1e-3 * w, b + 1e-3 * w, b + 5 * w, -np.inf, np.inf]).reshape(-1, 1)
            with warnings.catch_warnings():
                warnings.simplefilter('ignore')
                O = teneva.poi_to_ind(out, a, b, n, kind)[:, 0]
            lowi, highi = (0, n - 1) if kind == 'uni' else (n - 1, 0)
            res.check(list(O) == [lowi, lowi, highi, highi, lowi, highi], 'clamp', case, lambda: 'outside points mapped to %s' % list(O), tags + ['clamp'])
        if n >= 3:
            res.nt((c['box'], kind, n))
    return res


def check_scale(c):
    """poi_scale: affine map with clipping, exact rational reference on dyadic boxes; option broadcasting."""
    res = Res()
    d = c['d']
    boxes = c['boxes']
    a = [b_[0] for b_ in boxes]
    b = [b_[1] for b_ in boxes]
    pts = []
    for k in range(d):
        w = b[k] - a[k]
        pts.append([a[k], b[k], a[k] + w / 2, a[k] + w / 4, a[k] + 3 * w / 8, a[k] - w / 2, b[k] + w, a[k] + w / 1024])
    X = np.array([[pts[k][(j + k) % len(pts[k])] for k in range(d)] for j in range(len(pts[0]))])
    for kind in ('uni', 'cheb', [2.0, 6.0], [-1.0, 0.0]):
        res.ev()
        case = dict(c, kind=kind)
        X0 = X.copy()
        with warnings.catch_warnings():
            warnings.simplefilter('ignore')
            S = teneva.poi_scale(X, a, b, kind)
        lo, hi = (0.0, 1.0) if kind == 'uni' else ((-1.0, 1.0) if kind == 'cheb' else (kind[0], kind[1]))
        E = np.zeros_like(X)
        for j in range(X.shape[0]):
            for k in range(d):
                fx, fa, fb = Fraction(X[j, k]), Fraction(a[k]), Fraction(b[k])
                v = Fraction(lo) + (fx - fa) / (fb - fa) * (Fraction(hi) - Fraction(lo))
                v = min(max(v, Fraction(lo)), Fraction(hi))
                E[j, k] = float(v)
        res.check(np.array_equal(X, X0), 'scale.input_untouched', case, 'poi_scale changed the caller\'s points', ['scale'])
        res.check(S.shape == X.shape and np.array_equal(S, E), 'scale', case,
                  lambda: 'poi_scale differs from the exact affine map: max dev %.3e' % np.abs(S - E).max(), ['scale'])
        s1 = teneva.poi_scale(X[2], a, b, kind)
        res.check(np.ndim(s1) == 1 and np.array_equal(s1, S[2]), 'scale.single', case, 'single point differs from the batch')
        if len(set(a)) == 1 and len(set(b)) == 1:
            S2 = teneva.poi_scale(X, a[0], b[0], kind)
            res.check(np.array_equal(S2, S), 'scale.scalar_opts', case, 'scalar and per-dimension options differ')
            S3 = teneva.poi_scale(X, np.array(a), b[0], kind)
            res.check(np.array_equal(S3, S), 'scale.mixed_opts', case, 'mixed scalar / array options differ')
    # the box that IS the target interval (nothing to shift or stretch), points outside it included: the caller's array is an input
    for kind, (lo, hi) in (('uni', (0.0, 1.0)), ('cheb', (-1.0, 1.0))):
        for form in ('scalar', 'list'):
            res.ev()
            Xs = np.array([[lo - 0.5 + 0.37 * ((j + 2 * k) % 5) * (hi - lo) for k in range(d)] for j in range(6)])
            Xs0 = Xs.copy()
            aa, bb = (lo, hi) if form == 'scalar' else ([lo] * d, [hi] * d)
            with warnings.catch_warnings():
                warnings.simplefilter('ignore')
                Ss = teneva.poi_scale(Xs, aa, bb, kind)
                Js = teneva.poi_to_ind(Xs, aa, bb, 5, kind)
            res.check(np.array_equal(Xs, Xs0) and not np.shares_memory(Ss, Xs), 'scale.identity_box.input_untouched', dict(c, kind=kind, form=form),
                      'poi_scale / poi_to_ind on the box [%g, %g] changed (or returned) the caller\'s array' % (lo, hi), ['scale'])
            res.check(np.array_equal(Ss, np.clip(Xs0, lo, hi)), 'scale.identity_box', dict(c, kind=kind, form=form), 'identity box: result is not the clipped input', ['scale'])
    res.ev()
    try:
        teneva.poi_scale(X, a, b, 'nope')
        got = None
    except ValueError:
        got = 'ValueError'
    except Exception as ex:
        got = type(ex).__name__
    res.check(got == 'ValueError', 'scale.reject', c, lambda: 'unknown kind gave %r' % (got,))
    # option broadcasting for the index maps
    n = c['n']
    I = space.grid_array([min(n, 3)] * d)
    for kind in ('uni', 'cheb'):
        res.ev()
        case = dict(c, kind=kind, what='opts')
        with warnings.catch_warnings():
            warnings.simplefilter('ignore')
            P = teneva.ind_to_poi(I, a, b, [n] * d, kind)
            P2 = teneva.ind_to_poi(I, np.array(a), np.array(b), n, kind)
            res.check(np.array_equal(P, P2), 'opts.n_scalar', case, 'scalar n differs from per-dimension n')
            for j in range(len(I)):
                p1 = teneva.ind_to_poi(I[j], a, b, [n] * d, kind)
                if not res.check(np.array_equal(p1, P[j]), 'opts.single', case, 'single multi-index differs from the batch'):
                    break
            J = teneva.poi_to_ind(P, a, b, [n] * d, kind)
            J2 = teneva.poi_to_ind(P, a, b, n, kind)
            res.check(np.array_equal(J, J2) and np.array_equal(J, I), 'opts.back', case, 'round trip with per-dimension boxes fails')
            if len(set(a)) == 1 and len(set(b)) == 1:
                P3 = teneva.ind_to_poi(I, a[0], b[0], n, kind)
                res.check(np.array_equal(P3, P), 'opts.all_scalar', case, 'all-scalar options differ')
    # batches longer than any plausible internal block size: identical bits to the short batch, row by row
    if c.get('long'):
        for kind in ('uni', 'cheb'):
            res.ev()
            L = c['long']
            Ib = np.tile(I, (L // len(I) + 1, 1))[:L]
            with warnings.catch_warnings():
                warnings.simplefilter('ignore')
                Pb = teneva.ind_to_poi(Ib, a, b, [n] * d, kind)
                Ps = teneva.ind_to_poi(I, a, b, [n] * d, kind)
                Jb = teneva.poi_to_ind(Pb, a, b, [n] * d, kind)
                Sb = teneva.poi_scale(Pb, a, b, kind)
                Ss = teneva.poi_scale(Ps, a, b, kind)
            idx = np.arange(L) % len(I)
            res.check(np.array_equal(Pb, Ps[idx]) and np.array_equal(Jb, Ib) and np.array_equal(Sb, Ss[idx]), 'long_batch', dict(c, kind=kind, rows=L),
                      'a batch of %d rows is not the row-wise repetition of the short batch' % L)
    # option arrays passed as integer / float ndarrays to single-index calls, repeatedly: the caller's arrays are inputs, not scratch
    for kind in ('uni', 'cheb'):
        res.ev()
        na = np.array([n] * d, dtype=np.int64)
        aa, ba = np.array(a, dtype=float), np.array(b, dtype=float)
        with warnings.catch_warnings():
            warnings.simplefilter('ignore')
            Pref = teneva.ind_to_poi(I, a, b, [n] * d, kind)
            good = True
            for rep in range(3):
                for j in (0, len(I) - 1):
                    p1 = teneva.ind_to_poi(I[j], aa, ba, na, kind)
                    j1 = teneva.poi_to_ind(p1, aa, ba, na, kind)
                    good = good and np.array_equal(p1, Pref[j]) and np.array_equal(j1, I[j])
        res.check(good and np.array_equal(na, [n] * d) and np.array_equal(aa, a) and np.array_equal(ba, b), 'opts.ndarray_repeat', dict(c, kind=kind),
                  'repeated single-index calls with ndarray options change their answers (or the option arrays)')
    # inconsistent lengths
    for args in ((a + [0.0], b, [n] * d), (a, b[:-1] if d > 1 else b + [1.0], [n] * d), (a, b, [n] * (d + 1))):
        res.ev()
        try:
            teneva.grid_prep_opts(*args)
            got = None
        except ValueError:
            got = 'ValueError'
        except Exception as ex:
            got = type(ex).__name__
        res.check(got == 'ValueError', 'reject.lengths', dict(c, lens=[len(x) for x in args]), lambda: 'inconsistent lengths gave %r' % (got,))
    # a wrong-length option in any one position, through the helper with d given and through the public maps (which pass d themselves);
    # length 1 included for d >= 2: a one-element list is not a scalar
    if d >= 2:
        for pos in range(3):
            for L in sorted({1, d - 1, d + 1}):
                for form in ('list', 'array'):
                    res.ev()
                    opts = [list(a), list(b), [n] * d]
                    opts[pos] = (opts[pos] * 2)[:L]
                    if form == 'array':
                        opts[pos] = np.array(opts[pos])
                    calls = {'prep_opts': lambda: teneva.grid_prep_opts(opts[0], opts[1], opts[2], d),
                             'ind_to_poi': lambda: teneva.ind_to_poi(I, opts[0], opts[1], opts[2], 'uni'),
                             'poi_to_ind': lambda: teneva.poi_to_ind(I.astype(float), opts[0], opts[1], opts[2], 'cheb')}
                    if pos < 2:
                        calls['poi_scale'] = lambda: teneva.poi_scale(I.astype(float), opts[0], opts[1], 'uni')
                    # scalars in the other positions too (then the wrong-length option is the FIRST list-valued one)
                    sc = [a[0], b[0], n]
                    o2 = [opts[j] if j == pos else sc[j] for j in range(3)]
                    calls['ind_to_poi.scalars'] = lambda: teneva.ind_to_poi(I, o2[0], o2[1], o2[2], 'uni')
                    for nm, fn in calls.items():
                        try:
                            with warnings.catch_warnings():
                                warnings.simplefilter('ignore')
                                fn()
                            got = None
                        except ValueError:
                            got = 'ValueError'
                        except Exception as ex:
                            got = type(ex).__name__
                        # the helper documents ValueError; for the public maps "rejected" is what is promised: an exception, never an answer
                        # (poi_to_ind fails with IndexError on a one-element n on the pinned tree - rejected, though not by the helper)
                        res.check(got == 'ValueError' or (got is not None and nm != 'prep_opts'), 'reject.lengths', dict(c, pos=pos, length=L, form=form, call=nm),
                                  lambda: 'option %d of length %d (d = %d) through %s gave %r' % (pos, L, d, nm, got))
    # float32-typed bounds are numbers like any others: same answers as the same values held in float64
    for kind in ('uni', 'cheb'):
        res.ev()
        a32, b32 = np.array(a, dtype=np.float32), np.array(b, dtype=np.float32)
        a64, b64 = a32.astype(np.float64), b32.astype(np.float64)
        if np.all(b64 > a64):
            with warnings.catch_warnings():
                warnings.simplefilter('ignore')
                P64 = teneva.ind_to_poi(I, a64, b64, n, kind)
                P32 = teneva.ind_to_poi(I, a32, b32, n, kind)
                S64 = teneva.poi_scale(P64, a64, b64, kind)
                S32 = teneva.poi_scale(P64, a32, b32, kind)
                J32 = teneva.poi_to_ind(P64, a32, b32, n, kind)
            res.check(np.array_equal(P32, P64) and np.array_equal(S32, S64) and np.array_equal(J32, I) and P32.dtype == np.float64, 'forms.float32_bounds',
                      dict(c, kind=kind), lambda: 'float32-typed bounds change the maps (max deviation %.3e)' % np.abs(np.asarray(P32, dtype=float) - P64).max())
    # one-row batches stay batches
    for kind in ('uni', 'cheb'):
        res.ev()
        with warnings.catch_warnings():
            warnings.simplefilter('ignore')
            Pall = teneva.ind_to_poi(I, a, b, n, kind)
            P1 = teneva.ind_to_poi(I[-1:], a, b, n, kind)
            P1l = teneva.ind_to_poi(I[-1:].tolist(), a, b, n, kind)
            J1 = teneva.poi_to_ind(Pall[-1:], a, b, n, kind)
            S1 = teneva.poi_scale(Pall[-1:], a, b, kind)
        res.check(np.shape(P1) == (1, d) and np.shape(P1l) == (1, d) and np.shape(J1) == (1, d) and np.shape(S1) == (1, d)
                  and np.array_equal(P1, Pall[-1:]) and np.array_equal(J1, I[-1:]), 'one_row_batch', dict(c, kind=kind),
                  lambda: 'a batch of one row gave shapes %s %s %s %s' % (np.shape(P1), np.shape(P1l), np.shape(J1), np.shape(S1)))
    res.ev()
    try:
        teneva.grid_prep_opt(1.5, None)
        got = None
    except ValueError:
        got = 'ValueError'
    except Exception as ex:
        got = type(ex).__name__
    res.check(got == 'ValueError', 'reject.no_d', c, lambda: 'scalar option without d gave %r' % (got,))
    pa, pb, pn = teneva.grid_prep_opts(a, b[0] if len(set(b)) == 1 else b, n, d, reps=3)
    res.check(pa.shape == (3, d) and pn.shape == (3, d) and pn.dtype.kind == 'i' and np.all(pa == np.array(a)) and np.all(pn == n), 'prep.reps', c,
              'grid_prep_opts with reps')
    o = np.array([1.0, 2.0])
    res.check(teneva.grid_prep_opt(None) is None, 'prep.none', c, 'None must pass through')
    res.nt(('scale', d, [list(x) for x in boxes], n))
    return res


def check_flat(c):
    res = Res()
    for shape in c['shapes']:
        res.ev()
        case = dict(shapes=[shape])
        I = teneva.grid_flat(shape)
        N = int(np.prod(shape))
        d = len(shape)
        ok = isinstance(I, np.ndarray) and I.shape == (N, d) and I.dtype.kind in 'iu'
        if not res.check(ok, 'flat.shape', case, lambda: 'grid_flat returned shape %s' % (getattr(I, 'shape', None),)):
            continue
        E = np.array([[(j // int(np.prod(shape[:k]))) % shape[k] for k in range(d)] for j in range(N)]).reshape(N, d)
        res.check(np.array_equal(I, E), 'flat.order', case, 'not every multi-index once with the first index fastest')
        # the result belongs to the caller: writing to it must not change what the next call returns (array and list form of n)
        I += 1
        I2 = teneva.grid_flat(np.array(shape))
        I3 = teneva.grid_flat(list(shape))
        res.check(np.array_equal(I2, E) and np.array_equal(I3, E) and not np.shares_memory(I2, I3), 'flat.again', case,
                  'grid_flat returns something else after an earlier result was modified in place')
        res.nt(tuple(shape))
    for n in (1, 3, 4.0, np.int64(5)):
        res.ev()
        I = teneva.grid_flat(n)
        res.check(np.array_equal(I, np.arange(int(n))), 'flat.scalar', dict(shapes=[], n=float(n)), '1-D grid for a scalar n')
    return res


def check_cdf(c):
    res = Res()
    x = np.array(c['x'], dtype=float)
    x0 = x.copy()
    res.ev()
    F = teneva.cdf_getter(x)
    res.check(np.array_equal(x, x0), 'cdf.input_untouched', c, 'sample modified')
    m = len(x)
    qs = []
    for v in sorted(set(x.tolist())):
        qs += [np.nextafter(v, -np.inf), v, np.nextafter(v, np.inf)]
    qs += [min(x) - 1.0, max(x) + 1.0, -np.inf, np.inf]
    want = np.array([np.sum(x <= q) / m for q in qs])
    got = np.array([F(q) for q in qs])
    res.check(np.allclose(got, want, rtol=0, atol=1e-15), 'cdf.step', c,
              lambda: 'CDF values %s, right-continuous step function %s' % (got.tolist(), want.tolist()))
    gv = F(np.array(qs))
    res.check(np.allclose(gv, want, rtol=0, atol=1e-15), 'cdf.vector', c, 'vector argument differs')
    lo, hi = teneva.cdf_confidence(got, 0.05)
    eps = math.sqrt(math.log(2 / 0.05) / (2 * len(got)))
    res.check(np.allclose(lo, np.clip(got - eps, 0, 1)) and np.allclose(hi, np.clip(got + eps, 0, 1)), 'cdf.confidence', c, 'DKW band')
    res.nt(tuple(c['x']))
    return res


CHECKERS = {'grid': check_grid, 'scale': check_scale, 'flat': check_flat, 'cdf': check_cdf}


def strata(tier, seed):
    top = 129 if tier == 'quick' else 1025
    gs = []
    for box in BOXES:
        for kind in ('uni', 'cheb'):
            for lo in range(2, top + 1, 16):
                gs.append(dict(box=box, kind=kind, ns=list(range(lo, min(lo + 16, top + 1))), near_n=129 if tier == 'quick' else 1025))
    yield Stratum('index <-> point, all n, all indices', gs, 'grid', seq=(tier == 'quick'), size=len(gs), chunk=2, bounds={'n': [2, top], 'boxes': list(BOXES)})
    dy = [(0.0, 1.0), (-1.0, 1.0), (-3.0, 5.0), (0.125, 0.375), (-8.0, -2.0), (1048576.0, 1048577.0), (2.0 ** -30, 2.0 ** -29)]
    ss = []
    for d in ((1, 2, 3, 4) if tier == 'quick' else (1, 2, 3, 4, 5, 6)):
        combos = [[bx] * d for bx in dy] + ([list(dy[k:k + d]) for k in range(len(dy) - d + 1)] if d > 1 else [])
        for boxes in combos:
            for n in ((2, 3, 8) if tier == 'quick' else (2, 3, 4, 5, 8, 17, 64)):
                ss.append(dict(d=d, boxes=[list(x) for x in boxes], n=n, long=(16385 if (n == 3 and boxes[0] == dy[2]) else (70001 if (n == 8 and boxes[0] == dy[0] and d == 2) else 0))))
    yield Stratum('scaling, option broadcasting, rejection', ss, 'scale', seq=(tier == 'quick'), size=len(ss), chunk=8, bounds={'d': [1, 4 if tier == 'quick' else 6]})
    shapes = [list(s) for d in ((1, 2, 3, 4) if tier == 'quick' else (1, 2, 3, 4, 5)) for s in itertools.product(range(1, 5 if tier == 'quick' else 6), repeat=d)]
    fs = [dict(shapes=shapes[i:i + 20]) for i in range(0, len(shapes), 20)]
    yield Stratum('flat grid', fs, 'flat', seq=(tier == 'quick'), size=len(fs), chunk=2, bounds={'shapes': '{1..4}^d, d <= 4' if tier == 'quick' else '{1..5}^d, d <= 5'})
    xs = []
    for m in ((1, 2, 3, 4) if tier == 'quick' else (1, 2, 3, 4, 5, 6)):
        for t in itertools.product([-1.5, 0.0, 0.0 + 2.0 ** -40, 2.0] + ([] if tier == 'quick' else [1e300]), repeat=m):
            xs.append(dict(x=list(t)))
    yield Stratum('empirical CDF', xs, 'cdf', seq=(tier == 'quick'), size=len(xs), chunk=32, bounds={'sample size': [1, 4 if tier == 'quick' else 6], 'ties': True})
