"""C05 - TT-cross reproduces low-rank tensors; the cache is transparent; info describes the result.

Mode E with 0 deviations (C06 owns the deviations): all configurations of a finite product,
with a per-sweep history oracle (the callback copies the tensor after every sweep)."""
import itertools
import warnings

import numpy as np
import teneva

from mc import ref, space
from mc.engine import Res, Stratum, digest
from mc.env import RecordingCache, RecordingObjective, ScriptedCallback

ID = 'C05'
REGISTERED = True
CASE_TIMEOUT = 600      # every run has an explicit horizon (nswp / budget); a run that does not stop within it is a violation (clause timeout); generous: the 21x21x21 rank-21 configuration alone takes 40 s on an idle machine
LEVEL = 'model_checking'
TECHNIQUE = ('exhaustive enumeration of configurations (shape x target rank x initial rank x rank-growth setting x sweep count x '
             'cache x validation data) of the real teneva.cross under a recording environment; per-sweep state history '
             '(callback snapshots) judged by a history oracle; cached vs uncached runs compared bit-for-bit')
LEVEL_TEXT = ('every configuration is executed twice (with and without cache) on the real implementation; the sequence of sweep '
              'states is the explored trace: as soon as the working ranks of a sweep state reach the true TT-ranks, the next '
              'state must equal the target to rounding; cache contents, counters and the info fields are compared with '
              'independent recomputation from the recorded trace')
LEVEL_NOTE = ('bounded: d <= 4 (one d = 5), n <= 4, rho <= 3, 5 sweeps; "almost all tensors" is covered at the catalogue points '
              '(generic pattern per VERIF_SEED + an integer pattern) with a spectrum-gap guard; tolerance 1e-9 relative')
RULE = ('configurations = product(shape, rho, pattern, r0 in 1..rho+1, (dr_min,dr_max) in 5 settings, nswp in 1..5 (as prefixes of '
        'one 5-sweep trace), cache on/off, validation on/off). States = sweep states (digest of cores), transitions = sweeps. '
        'Non-trivial: a configuration whose working ranks reached the true ranks so that exact recovery was claimed.')
ASSUMPTIONS = ['targets whose unfoldings have sigma_rho/sigma_1 < 1e-4 are outside "almost all tensors" (skipped, counted)',
               'the objective is a table lookup on the dense target']

NS = 5


def target(c, seed):
    d = len(c['shape'])
    cores = space.tt(c['shape'], c.get('ranks') or [1] + [c['rho']] * (d - 1) + [1], c['pat'], seed, tag=13)
    return ref.dense(cores) * float(c.get('mag', 1.0))


def true_ranks(T):
    d = T.ndim
    out = []
    ok = True
    for k in range(1, d):
        s = ref.unfold_sv(T, k)
        if s[0] == 0:
            return None, False
        q = int(np.sum(s > 1e-8 * s[0]))
        if s[q - 1] < 1e-4 * s[0]:
            ok = False
        if q < len(s) and s[q] > 1e-12 * s[0]:
            ok = False
        out.append(q)
    return out, ok


def run(c, seed, T, nswp, cache, vld, cb=None, m=None, **more):
    d = len(c['shape'])
    Y0 = space.tt(c['shape'], c.get('r0s') or [1] + [c['r0']] * (d - 1) + [1], 'gen', seed, tag=29)
    b0 = ref.core_bytes(Y0)
    f = RecordingObjective(T, ret=c.get('ret', 'float64'))
    ca = RecordingCache() if cache else None
    info = {}
    kw = dict(nswp=nswp, m=m, dr_min=c['dr'][0], dr_max=c['dr'][1], info=info, cache=ca, cb=cb, m_cache_scale=10 ** 9)
    for opt in ('tau', 'tau0', 'k0'):
        if c.get(opt) is not None:
            kw[opt] = c[opt]
    kw.update(more)
    if vld:
        I = space.grid_array(c['shape'])
        I = I[::2] if len(I) > 3 else I
        if c.get('big_vld'):
            I = np.tile(I, (c['big_vld'] // len(I) + 1, 1))[:c['big_vld']]
        kw.update(I_vld=I, y_vld=T[tuple(I.T)])
    with warnings.catch_warnings():
        warnings.simplefilter('ignore')
        Y = teneva.cross(f, Y0, **kw)
    return Y, info, f, ca, ref.core_bytes(Y0) == b0, kw


def check_config(c):
    res = Res()
    seed = c.get('seed', 0)
    T = target(c, seed)
    shape = c['shape']
    d = len(shape)
    nT = float(np.linalg.norm(T))
    rho, okgap = true_ranks(T)
    tags = ['dr=%d,%d' % tuple(c['dr']), 'pat=' + c['pat']]
    if rho is None:
        res.ev()
        res.skip('zero target')
        return res
    for vld in (False, True):
        res.ev()
        case = dict(c, vld=vld)
        cbu = ScriptedCallback()
        Yu, iu, fu, _, y0ok, kw = run(c, seed, T, NS, False, vld, cbu)
        cbc = ScriptedCallback()
        Yc, ic, fc, ca, y0ok2, _ = run(c, seed, T, NS, True, vld, cbc)
        Ypre, ipre, _, _, _, _ = run(c, seed, T, 0, False, vld)
        res.tr(2 * NS + 1)
        res.check(y0ok and y0ok2, 'y0_untouched', case, 'initial tensor modified', tags)
        if not res.check(ref.wellformed(Yu, shape) is None and ref.finite(Yu) and len(cbu.snaps) == NS, 'shape', case,
                         lambda: 'result malformed or %d callback calls for %d sweeps' % (len(cbu.snaps), NS), tags):
            continue
        states = [Ypre] + [s['Y'] for s in cbu.snaps]
        # the maxvol pre-iteration only re-parametrises the initial approximation: "the tensor of the previous sweep" of
        # sweep 1 is Y0 itself, and the first convergence value is the distance to it
        d = len(shape)
        Y0 = space.tt(shape, c.get('r0s') or [1] + [c['r0']] * (d - 1) + [1], 'gen', seed, tag=29)
        D0 = ref.dense(Y0)
        n0 = float(np.linalg.norm(D0))
        dv = float(np.linalg.norm(ref.dense(Ypre) - D0))
        res.check(dv <= 1e-9 * n0, 'pre.same', case, lambda: 'nswp=0 returns a tensor that differs from Y0 by relative %.3e' % (dv / n0), tags + ['pre'])
        if kw.get('I_vld') is not None:
            Iv, yv = kw['I_vld'], kw['y_vld']
            with np.errstate(all='ignore'):
                ev0 = float(np.linalg.norm(ref.dense(Ypre)[tuple(np.asarray(Iv).T)] - yv) / np.linalg.norm(yv))
            # validation values all zero: the relative error is undefined (0/0 or x/0), nothing is promised about it
            res.check(not np.any(yv) or abs(ipre.get('e_vld') - ev0) <= 1e-6 * ev0 + 1e-9, 'info.e_vld.pre', case,
                      lambda: "nswp=0: info['e_vld']=%r, relative validation error of the returned tensor %r" % (ipre.get('e_vld'), ev0), tags)
        e1 = cbu.snaps[0]['info']['e']
        w1 = float(np.linalg.norm(ref.dense(cbu.snaps[0]['Y']) - D0)) / n0
        res.check(abs(e1 - w1) <= 1e-7 * (1 + w1), 'info.e.first', case,
                  lambda: "first sweep: info['e']=%r, distance to the initial tensor %r" % (e1, w1), tags + ['pre'])
        for S in states:
            res.state(digest(ref.core_bytes(S)))
        # ---- history oracle: exactness once the working ranks have reached the true ranks --------
        claimed = False
        for s in range(1, NS + 1):
            prev = states[s - 1]
            rk = [G.shape[2] for G in prev[:-1]]
            if all(a >= b for a, b in zip(rk, rho)):
                if c.get('ranks') and any(a > b + 1 for a, b in zip(rk, rho)):
                    # a bond carried with two or more channels beyond its true rank next to bonds at their true rank: the intersection
                    # matrices are singular and exactness is not what the cross interpolation promises there (it fails for one generic value
                    # pattern in two on the profile 1-1-3-1-1); the uniform lattice keeps its claim, these profiles keep all other clauses
                    res.skip('non-uniform profile with a bond over-ranked by more than one: outside the exactness claim')
                    break
                if not okgap:
                    res.skip('ill-conditioned target (spectrum gap)')
                    break
                err = float(np.linalg.norm(ref.dense(states[s]) - T)) / nT
                res.check(err <= 1e-9, 'exact', dict(case, sweep=s),
                          lambda: 'sweep %d: working ranks %s >= true ranks %s but relative error %.3e' % (s, rk, rho, err),
                          tags + ['exact'])
                claimed = True
        if claimed:
            res.nt((shape, c['rho'], c['pat'], c['r0'], c['dr'], vld))
        # rank growth: with dr_min >= 1 every sweep raises every bond by at least one until nothing more can be carried
        if c['dr'][0] >= 1:
            for s in range(1, NS + 1):
                ro = [G.shape[2] for G in states[s - 1][:-1]]
                rn = [G.shape[2] for G in states[s][:-1]]
                capk = [min(int(np.prod(shape[:k + 1])), int(np.prod(shape[k + 1:]))) for k in range(d - 1)]
                okg = all(b >= min(a + 1, cp) for a, b, cp in zip(ro, rn, capk))
                res.check(okg, 'growth', dict(case, sweep=s),
                          lambda: 'sweep %d: ranks %s -> %s with dr_min=%d (caps %s): a bond did not grow' % (s, ro, rn, c['dr'][0], capk), tags + ['growth'])
        # sweep counts 1..NS are prefixes of the same trace
        for n in c.get('prefix_runs', []):
            res.ev()
            Yn, inn, _, _, _, _ = run(c, seed, T, n, False, vld)
            res.check(ref.core_bytes(Yn) == ref.core_bytes(states[n]) and inn.get('nswp') == n and inn.get('stop') == 'nswp', 'prefix', dict(case, nswp=n),
                      lambda: 'nswp=%d is not the %d-th state of the longer run (stop=%r)' % (n, n, inn.get('stop')), tags)
        # the observer must not matter: the same run WITHOUT the harness's callback returns the same tensor and the same report
        res.ev()
        Yq, iq, _, _, _, _ = run(c, seed, T, NS, False, vld, None)
        keys = ('nswp', 'stop', 'm', 'e', 'e_vld', 'r', 'm_cache')
        diff = [k for k in keys if not (iq.get(k) == iu.get(k) or (isinstance(iq.get(k), float) and isinstance(iu.get(k), float) and np.isnan(iq.get(k)) and np.isnan(iu.get(k))))]
        res.check(ref.core_bytes(Yq) == ref.core_bytes(Yu) and not diff, 'no_callback.same', case,
                  lambda: 'without a callback the run differs: info fields %s (%s vs %s)' % (diff, [iq.get(k) for k in diff], [iu.get(k) for k in diff]), tags)
        # two stop criteria together: an accuracy threshold that may or may not be reached never lifts the sweep limit; when it stops the
        # run earlier, the result is the state of that sweep
        for e_thr in (1e-14, 1e-3):
            for extra in (dict(e=e_thr), dict(e_vld=e_thr) if vld else None):
                if extra is None:
                    continue
                res.ev()
                Ye, ie, _, _, _, _ = run(c, seed, T, NS, False, vld, **extra)
                ne = ie.get('nswp')
                oks = isinstance(ne, int) and 1 <= ne <= NS and ie.get('stop') in ('nswp', 'e', 'e_vld') and (ie.get('stop') != 'nswp' or ne == NS)
                oks = oks and ref.core_bytes(Ye) == ref.core_bytes(states[ne])
                res.check(oks, 'stop.two_criteria', dict(case, **extra),
                          lambda: 'nswp=%d with %s: stopped by %r after %r sweeps (or the result is not that sweep\'s state)' % (NS, extra, ie.get('stop'), ne), tags)
        # ---- cache transparency ---------------------------------------------------------------------
        if ic.get('stop') != 'conv':
            same = ref.core_bytes(Yu) == ref.core_bytes(Yc)
            res.check(same and iu.get('nswp') == ic.get('nswp'), 'cache.identical', case,
                      lambda: 'cached run differs from the uncached one (bit-identical cores: %s, sweeps %r vs %r)' % (same, iu.get('nswp'), ic.get('nswp')),
                      tags + ['cache'])
            res.check(all(ref.core_bytes(a['Y']) == ref.core_bytes(b['Y']) for a, b in zip(cbu.snaps, cbc.snaps)), 'cache.identical.sweeps', case,
                      'a sweep state differs between cached and uncached runs', tags + ['cache'])
        res.check(ic.get('m') <= iu.get('m'), 'cache.m_not_larger', case, lambda: 'm cached %r > uncached %r' % (ic.get('m'), iu.get('m')), tags)
        evald = [tuple(int(x) for x in row) for b in fc.batches for row in b]
        want = {t: float(T[t]) for t in evald}
        res.check(len(evald) == len(set(evald)), 'cache.once', case, 'an index was evaluated twice with a cache', tags)
        okc = set(ca.keys()) == set(want) and all(isinstance(k, tuple) and len(k) == d and all(float(x) == int(x) for x in k) for k in ca.keys()) \
            and all(dict.__getitem__(ca, k) == v for k, v in want.items())
        res.check(okc, 'cache.content', case, lambda: 'cache has %d keys, %d evaluated' % (len(ca), len(want)), tags)
        res.check(ic.get('m') == len(evald) and iu.get('m') == sum(len(b) for b in fu.batches), 'info.m', case, 'info m differs from the evaluated count', tags)
        res.check(ic.get('m') + ic.get('m_cache') == iu.get('m') or ic.get('stop') == 'conv', 'cache.accounting', case,
                  lambda: 'm + m_cache = %r, uncached m = %r' % (ic.get('m') + ic.get('m_cache'), iu.get('m')), tags)
        res.check(all(G.dtype == np.float64 for G in Yu) and all(G.dtype == np.float64 for G in Yc), 'dtype', case,
                  lambda: 'cores are not float64: %s / %s' % ([str(G.dtype) for G in Yu], [str(G.dtype) for G in Yc]), tags)
        # a budget that ends the cached run: the dictionary still holds exactly what was evaluated, info['m'] counts it
        for mb in (sorted({ic['m'] // 2, ic['m'] - 1, max(1, ic['m'] // 3)}) if (not vld and ic.get('m', 0) > 3) else []):
            res.ev()
            Yb, ib, fb, cab, _, _ = run(c, seed, T, NS, True, False, m=mb)
            evb = [tuple(int(x) for x in row) for b in fb.batches for row in b]
            res.check(ib.get('m') == len(evb) and len(evb) <= mb and set(cab.keys()) == set(evb), 'budget.cache', dict(case, m=mb),
                      lambda: "budget m=%d with cache: info['m']=%r, %d indices sent to the objective, %d cache entries, stop=%r" % (
                          mb, ib.get('m'), len(evb), len(cab), ib.get('stop')), tags + ['budget'])
        # ---- info describes the returned tensor ------------------------------------------------------------
        for (Y, info, cb, nm) in ((Yu, iu, cbu, 'uncached'), (Yc, ic, cbc, 'cached')):
            with warnings.catch_warnings():
                warnings.simplefilter('ignore')
                er = teneva.erank(Y)
                e_ref = teneva.accuracy(Y, cb.snaps[-1]['Yold'])
                if kw.get('I_vld') is not None:
                    Iv, yv = kw['I_vld'], kw['y_vld']
                    pred = ref.dense(Y)[tuple(np.asarray(Iv).T)]
                    with np.errstate(all='ignore'):
                        ev_ref = float(np.linalg.norm(pred - yv) / np.linalg.norm(yv))      # independent of accuracy_on_data / get_many
                    if not np.any(yv):
                        ev_ref = None
                else:
                    ev_ref = -1.0
            res.check(info.get('r') == er, 'info.r', dict(case, run=nm), lambda: "info['r']=%r, erank=%r" % (info.get('r'), er), tags)
            res.check(info.get('e') == e_ref or (np.isnan(info.get('e')) and np.isnan(e_ref)), 'info.e', dict(case, run=nm),
                      lambda: "info['e']=%r, accuracy(Y, Y_prev)=%r" % (info.get('e'), e_ref), tags)
            evg = info.get('e_vld')
            res.check(ev_ref is None or (ev_ref == -1.0 and evg == -1.0) or abs(evg - ev_ref) <= 1e-6 * max(ev_ref, 1e-300) + 1e-9, 'info.e_vld', dict(case, run=nm),
                      lambda: "info['e_vld']=%r, accuracy_on_data=%r" % (info.get('e_vld'), ev_ref), tags)
            res.check(info.get('nswp') == NS and info.get('stop') == 'nswp', 'info.nswp', dict(case, run=nm),
                      lambda: 'nswp=%r stop=%r' % (info.get('nswp'), info.get('stop')), tags)
            # per-sweep convergence value is the distance to the previous sweep state
            for s, sn in enumerate(cb.snaps):
                with warnings.catch_warnings():
                    warnings.simplefilter('ignore')
                    es = teneva.accuracy(sn['Y'], sn['Yold'])
                res.check(sn['info']['e'] == es or (np.isnan(es) and np.isnan(sn['info']['e'])), 'info.e.sweep', dict(case, run=nm, sweep=s + 1),
                          lambda: "sweep %d: info['e']=%r vs %r" % (s + 1, sn['info']['e'], es), tags)
                if kw.get('I_vld') is not None:
                    Iv, yv = kw['I_vld'], kw['y_vld']
                    with np.errstate(all='ignore'):
                        evs = float(np.linalg.norm(ref.dense(sn['Y'])[tuple(np.asarray(Iv).T)] - yv) / np.linalg.norm(yv))
                    res.check(not np.any(yv) or abs(sn['info']['e_vld'] - evs) <= 1e-6 * max(evs, 1e-300) + 1e-9, 'info.e_vld.sweep', dict(case, run=nm, sweep=s + 1),
                              lambda: "sweep %d: info['e_vld']=%r, relative validation error of that sweep's tensor %r" % (s + 1, sn['info']['e_vld'], evs), tags)
                prevY = (Ypre if s == 0 else cb.snaps[s - 1]['Y'])
                res.check(ref.core_bytes(sn['Yold']) == ref.core_bytes(prevY), 'info.yold', dict(case, run=nm, sweep=s + 1),
                          'Yold handed to the callback is not the previous sweep state', tags)
        res.outcome('m=%s/%s' % (iu.get('m'), ic.get('m')))
    return res


CHECKERS = {'config': check_config}


def strata(tier, seed):
    if tier == 'quick':
        shapes = [[3, 3], [2, 4], [3, 2, 3], [2, 3, 2], [1, 3, 2], [2, 2, 2, 2], [3, 1, 3, 2], [5, 6, 4], [12, 9]]
        rhos = [1, 2, 3]
        drs = [(0, 0), (0, 1), (1, 1), (1, 2), (2, 2)]
        pats = ['gen']
    else:
        shapes = space.shapes([2], [2, 3, 4]) + space.shapes([3], [1, 2, 3]) + [[4, 4, 4], [2, 2, 2, 2], [3, 2, 3, 2], [1, 2, 3, 4], [2, 2, 2, 2, 2]]
        rhos = [1, 2, 3]
        drs = [(0, 0), (0, 1), (1, 1), (1, 2), (2, 2), (0, 3)]
        pats = ['gen', 'intA']
    cs = []
    for sh in shapes:
        for rho in rhos:
            for pat in pats:
                for r0 in range(1, rho + 2):
                    for dr in drs:
                        cs.append(dict(shape=sh, rho=rho, pat=pat, r0=r0, dr=list(dr), seed=seed,
                                       prefix_runs=[1, 3] if tier == 'quick' else [1, 2, 3, 4]))
    # extreme magnitudes of the target, a validation set larger than any internal batch size, maximal two-sided bonds
    for mag in (1e-20, 1e+20):
        for sh, rho in (([3, 3, 2], 2), ([4, 4], 3)):
            for dr in ((0, 0), (1, 1)):
                cs.append(dict(shape=sh, rho=rho, pat='gen', r0=rho if dr == (0, 0) else 1, dr=list(dr), seed=seed, mag=mag, prefix_runs=[1]))
    cs.append(dict(shape=[3, 2, 3], rho=2, pat='gen', r0=2, dr=[0, 0], seed=seed, big_vld=20000, prefix_runs=[1]))
    cs.append(dict(shape=[3, 2, 3], rho=2, pat='gen', r0=1, dr=[1, 1], seed=seed, big_vld=40001, prefix_runs=[]))
    # objectives that answer in other forms than float64 arrays (float32 / Python lists / integer arrays), on integer-valued targets
    for ret in ('float32', 'list', 'int'):
        for sh, rho in (([3, 3, 2], 2), ([4, 3], 2)):
            for dr in ((0, 0), (1, 1)):
                cs.append(dict(shape=sh, rho=rho, pat='intA', r0=rho if dr == (0, 0) else 1, dr=list(dr), seed=seed, ret=ret, prefix_runs=[1]))
    for sh, rho in (([5, 5], 5), ([2, 2, 2, 2], 2), ([3, 3], 3), ([2, 4, 2], 2)):
        for r0 in (1, 2):
            for dr in ((1, 1), (1, 2), (2, 2)):
                cs.append(dict(shape=sh, rho=rho, pat='gen', r0=r0, dr=list(dr), seed=seed, prefix_runs=[]))
    # requests of more than 8192 rows whose size is odd (21 x 21 x 21); maxvol with its tolerance at exactly 1 and a tiny iteration budget
    cs.append(dict(shape=[21, 21, 21], rho=21, pat='gen', r0=21, dr=[0, 0], seed=seed, prefix_runs=[]))
    for sh, rho in (([6, 7, 6], 3), ([16, 20, 18, 16][:3], 4), ([5, 5, 5, 5], 3)):
        for tau0, k0 in ((1.0, 1), (1.0, 2), (1.0, 3), (1.05, 1), (1.0, 100)):
            for dr in ((0, 0), (1, 1)):
                cs.append(dict(shape=sh, rho=rho, pat='gen', r0=rho if dr == (0, 0) else 1, dr=list(dr), seed=seed, tau0=tau0, k0=k0, prefix_runs=[1]))
    # moderately large dimension / mode size / rank (d = 6, 8; mode 17; rank 6 with modes of size 3: ranks above the mode size)
    for sh, rho, r0, dr in (([2] * 6, 2, 1, (1, 1)), ([2] * 8, 2, 2, (0, 0)), ([17, 3, 4], 3, 1, (1, 2)), ([3] * 5, 6, 2, (2, 2)), ([7, 10], 7, 3, (2, 2)), ([3, 4, 3, 4, 3], 4, 4, (0, 0))):
        cs.append(dict(shape=sh, rho=rho, pat='gen', r0=r0, dr=list(dr), seed=seed, prefix_runs=[1]))
    # ranks that differ from bond to bond, in the target and in the initial approximation; mode sizes that differ from mode to mode
    for sh, rk in (([3, 4, 3, 2], [1, 2, 3, 2, 1]), ([4, 3, 5], [1, 3, 2, 1]), ([2, 5, 3], [1, 2, 3, 1]), ([3, 3, 3, 3], [1, 1, 3, 1, 1]), ([4, 2, 4, 2, 3], [1, 2, 2, 3, 2, 1])):
        for r0s in ([1] + [1] * (len(sh) - 1) + [1], [1] + [1 + (k % 2) for k in range(len(sh) - 1)] + [1], [1] + [2 - (k % 2) for k in range(len(sh) - 1)] + [1]):
            for dr in ((0, 0), (1, 1), (1, 2)):
                cs.append(dict(shape=sh, rho=max(rk), ranks=rk, pat='gen', r0=max(r0s), r0s=r0s, dr=list(dr), seed=seed, prefix_runs=[1, 3] if tier == 'quick' else [1, 2, 3, 4]))
    yield Stratum('configurations', cs, 'config', size=len(cs), chunk=2,
                  bounds={'sweeps': NS, 'shapes': len(shapes), 'rho': rhos, 'r0': '1..rho+1', 'dr': [list(x) for x in drs]})
