"""C17 - QTT conversion and index maps are mutually inverse and value-preserving.

Mode L (all multi-indices for q*d <= 12; all delta tensors - complete for the index
permutation, the conversion being linear) + mode G (BFS over tt_to_qtt / qtt_to_tt
alternations, starting from non-initial states)."""
import itertools
import warnings

import numpy as np
import teneva

from mc import ref, space
from mc.engine import Res, Stratum, digest

ID = 'C17'
REGISTERED = True
LEVEL = 'exploration'
TECHNIQUE = ('exhaustive enumeration of all multi-indices for every (d, q) with q*d <= 12 (index maps, single and batched); '
             'conversion on every delta tensor (a basis: the conversion is linear) and on generic tensors x accuracies at the '
             'breakpoints x caps; BFS over alternating conversions to depth 4')
LEVEL_TEXT = ('the index maps are finite bijections and are checked on their complete domain against explicit bit shifts; the '
              'value-preservation of the conversion is checked at every multi-index of every tensor of the catalogue, and the '
              'unit tensors make the check complete for the index permutation')
LEVEL_NOTE = ('bounded: q*d <= 12 for the maps; conversion on shapes [2^q]^d with d <= 3, q <= 3, ranks <= 4; the per-core error '
              'bound e*sqrt(q) is judged with margin 1e-9 and only above the 1e-7 rounding floor of the Gram-matrix SVD')
RULE = ('cases = product((d,q), all multi-indices) and product(shape, rank profile, tensor kind {every delta, gen, intA}, e, cap). '
        'Non-trivial: every index-map case; conversions with q >= 2 (an inner bond exists); distinct = the case.')
ASSUMPTIONS = ['mode sizes 2^q with q >= 1 (a mode of size 1 has no binary expansion)']


def check_maps(c):
    res = Res()
    d, q = c['d'], c['q']
    n = 2 ** q
    pts = np.array(list(itertools.product(range(n), repeat=d)), dtype=int).reshape(-1, d)
    res.ev()
    # explicit little-endian expansion by shifts
    E = np.zeros((len(pts), d * q), dtype=int)
    for k in range(d):
        for b in range(q):
            E[:, k * q + b] = (pts[:, k] >> b) & 1
    B = teneva.ind_tt_to_qtt(pts, n)
    ok = isinstance(B, np.ndarray) and B.shape == E.shape and B.dtype.kind in 'iu'
    res.check(ok and np.array_equal(B, E), 'tt_to_qtt.bits', c, 'batched bits differ from the little-endian expansion')
    if ok:
        # the composition on the library's OWN output object (dtype and all), not on a re-typed copy
        back2 = teneva.ind_qtt_to_tt(B, q)
        res.check(isinstance(back2, np.ndarray) and back2.shape == pts.shape and np.array_equal(back2, pts), 'compose.direct', c,
                  'ind_qtt_to_tt(ind_tt_to_qtt(I)) != I when the output of the first map is fed directly into the second')
        b1 = teneva.ind_tt_to_qtt(pts[-1], n)
        res.check(np.array_equal(teneva.ind_qtt_to_tt(b1, q), pts[-1]), 'compose.direct.single', c, 'single multi-index: direct composition fails')
    back = teneva.ind_qtt_to_tt(E, q)
    res.check(isinstance(back, np.ndarray) and back.shape == pts.shape and np.array_equal(back, pts), 'qtt_to_tt.batch', c,
              'batched inverse map differs')
    # all bit strings: the other composition
    bits = np.array(list(itertools.product((0, 1), repeat=d * q)), dtype=int).reshape(-1, d * q)
    I2 = teneva.ind_qtt_to_tt(bits, q)
    want = np.zeros((len(bits), d), dtype=int)
    for k in range(d):
        for b in range(q):
            want[:, k] += bits[:, k * q + b] << b
    res.check(np.array_equal(I2, want), 'qtt_to_tt.value', c, 'bit strings map to the wrong multi-indices')
    res.check(np.array_equal(teneva.ind_tt_to_qtt(I2, n), bits), 'compose.bits', c, 'tt_to_qtt(qtt_to_tt(bits)) != bits')
    # small batches, the one-row batch included: a batch stays a batch (2-D in, 2-D out), as arrays and as lists of lists
    for mrows in (1, 2, 3):
        res.ev()
        sel = [(7 * j + 1) % len(pts) for j in range(mrows)]
        for form in ('array', 'list'):
            Pi, Ei = pts[sel], E[sel]
            Bm = teneva.ind_tt_to_qtt(Pi if form == 'array' else Pi.tolist(), n)
            Im = teneva.ind_qtt_to_tt(Ei if form == 'array' else Ei.tolist(), q)
            res.check(np.shape(Bm) == (mrows, d * q) and np.array_equal(Bm, Ei) and np.shape(Im) == (mrows, d) and np.array_equal(Im, Pi),
                      'small_batch', dict(c, rows=mrows, form=form),
                      lambda: 'a batch of %d multi-indices gave shapes %s / %s' % (mrows, np.shape(Bm), np.shape(Im)))
    # singles (1-D list and array input, 1-D output)
    step = max(1, len(pts) // 64)
    for i in pts[::step]:
        res.ev()
        b1 = teneva.ind_tt_to_qtt(list(i), n)
        b2 = teneva.ind_tt_to_qtt(np.array(i), n)
        e1 = E[np.all(pts == i, axis=1)][0]
        good = np.ndim(b1) == 1 and np.array_equal(b1, e1) and np.array_equal(b2, e1)
        i1 = teneva.ind_qtt_to_tt(list(e1), q)
        good = good and np.ndim(i1) == 1 and np.array_equal(i1, i)
        if not res.check(good, 'single', dict(c, i=i.tolist()), 'single multi-index differs from the batch'):
            break
    # equivalent argument forms: NumPy integers / a float power of two for the mode size, other integer dtypes for the indices
    res.ev()
    okf = True
    for nf in (np.int64(n), np.int32(n), float(n), 2.0 ** q):
        okf = okf and np.array_equal(teneva.ind_tt_to_qtt(pts, nf), E)
    for qf in (np.int64(q), np.int32(q)):
        okf = okf and np.array_equal(teneva.ind_qtt_to_tt(E, qf), pts)
    for dt in (np.int32, np.uint16, np.int16):
        if n - 1 <= np.iinfo(dt).max:
            okf = okf and np.array_equal(teneva.ind_tt_to_qtt(pts.astype(dt), n), E) and np.array_equal(teneva.ind_qtt_to_tt(E.astype(dt), q), pts)
    okf = okf and np.array_equal(teneva.ind_tt_to_qtt(pts.tolist(), n), E) and np.array_equal(teneva.ind_qtt_to_tt(E.tolist(), q), pts)
    res.check(bool(okf), 'forms', c, 'an equivalent form of n / q / the index array changes the map')
    if c.get('long'):
        res.ev()
        L = c['long']
        idx = np.arange(L) % len(pts)
        Bl = teneva.ind_tt_to_qtt(pts[idx], n)
        res.check(np.array_equal(Bl, E[idx]) and np.array_equal(teneva.ind_qtt_to_tt(Bl, q), pts[idx]), 'long_batch', dict(c, rows=L),
                  'a batch of %d multi-indices is not mapped row by row' % L)
    for bad in (3, 5, 6, 7, 9, 12):
        res.ev()
        try:
            teneva.ind_tt_to_qtt(np.zeros((1, d), dtype=int), bad)
            got = None
        except ValueError:
            got = 'ValueError'
        except Exception as ex:
            got = type(ex).__name__
        res.check(got == 'ValueError', 'reject', dict(c, n=bad), lambda: 'mode size %d gave %r' % (bad, got))
    res.nt((d, q))
    return res


def _tensor(c, seed):
    shape, rk = c['shape'], c['ranks']
    if c['kind'] == 'delta':
        # a unit tensor embedded in the given rank profile: generic cores of rank 1 picking one entry, padded with zeros
        Y = [np.zeros((rk[k], shape[k], rk[k + 1])) for k in range(len(shape))]
        for k, i in enumerate(c['pos']):
            Y[k][0, i, 0] = 1.0
        return Y
    if c['kind'] == 'sine':
        # sin(w (i_1 + ... + i_d) + phase): TT-ranks 2 and QTT-ranks 2 on every bond - caps above 2 never bind, in-mode unfoldings are larger than 2
        w, d = 0.37, len(shape)
        Y = []
        for k, n in enumerate(shape):
            x = w * np.arange(n) + (0.2 if k == 0 else 0.0)
            R = np.array([[np.cos(x), -np.sin(x)], [np.sin(x), np.cos(x)]]).transpose(0, 2, 1)       # (2, n, 2)
            if d == 1:
                Y.append(np.sin(x).reshape(1, n, 1))
            elif k == 0:
                Y.append(np.stack([np.sin(x), np.cos(x)], axis=1).reshape(1, n, 2))
            elif k == d - 1:
                Y.append(R[:, :, :1].copy())
            else:
                Y.append(R.copy())
        return Y
    return space.tt(shape, rk, c['kind'], seed, tag=17)


def _ranks(Z):
    return [G.shape[2] for G in Z[:-1]]


def check_conv(c):
    res = Res()
    seed = c.get('seed', 0)
    Y = _tensor(c, seed)
    Yb = ref.core_bytes(Y)
    shape = c['shape']
    d = len(shape)
    q = int(np.log2(shape[0]))
    D = ref.dense(Y)
    nD = float(np.linalg.norm(D))
    grid = space.grid_array(shape)
    tags = ['kind=' + c['kind'], 'q=%d' % q]
    # thresholds: fixed + breakpoints of the first truncation of every core
    es = {1e-12, 1e-6}
    if c['kind'] != 'delta':
        for G in Y:
            s = np.linalg.svd(G.reshape(-1, G.shape[2], order='F'), compute_uv=False)
            for t in ref.tails(s):
                if t > 1e-6 * max(s[0], 1e-300):
                    es.update({float(t) * (1 - 1e-6), float(t) * (1 + 1e-6)})
    for e in sorted(es):
        for r in c['caps']:
            res.ev()
            case = dict(c, e=e, r=r)
            with warnings.catch_warnings():
                warnings.simplefilter('ignore')
                Z = teneva.tt_to_qtt(Y, e, r)
            res.check(ref.core_bytes(Y) == Yb, 'input_untouched', case, 'argument modified', tags)
            why = ref.wellformed(Z, [2] * (q * d))
            if not res.check(why is None and ref.finite(Z), 'qtt.wellformed', case, lambda: str(why), tags):
                continue
            rz = [1] + _ranks(Z) + [1]
            cap = max(1, int(min(r, 10 ** 9)))
            inner_ok, outer_ok = True, True
            for b in range(1, q * d):
                if b % q == 0:
                    outer_ok = outer_ok and rz[b] == Y[b // q - 1].shape[2]
                else:
                    inner_ok = inner_ok and rz[b] <= cap
            res.check(outer_ok, 'bonds.between_modes', case, lambda: 'QTT ranks %s, TT ranks %s' % (rz, [1] + _ranks(Y) + [1]), tags)
            res.check(inner_ok, 'bonds.cap', case, lambda: 'inner bonds %s exceed cap %d' % (rz, cap), tags)
            with warnings.catch_warnings():
                warnings.simplefilter('ignore')
                W = teneva.qtt_to_tt(Z, q)
            if not res.check(ref.wellformed(W, shape) is None and _ranks(W) == _ranks(Y), 'back.wellformed', case,
                             lambda: 'qtt_to_tt gives ranks %s, original %s' % (_ranks(W), _ranks(Y)), tags):
                continue
            # does the cap bind? compare with the uncapped conversion
            with warnings.catch_warnings():
                warnings.simplefilter('ignore')
                Zf = teneva.tt_to_qtt(Y, e, 1e12)
            binds = any(x > cap for x in _ranks(Zf))
            QI = teneva.ind_tt_to_qtt(grid, shape[0])
            vq = np.array([teneva.get(Z, list(b)) for b in QI])
            vt = ref.dense(W)[tuple(grid.T)]
            res.check(np.abs(vq - vt).max() <= 1e-12 * max(np.abs(vt).max(), 1e-300) * (1 + q * d), 'entry.qtt=back', case,
                      'QTT entries at the binary expansions differ from the back-converted tensor', tags)
            if not binds:
                floor = 1e-7 * max(np.linalg.norm(G) for G in Y)
                per_core_ok = True
                worst = 0.0
                for G, H in zip(Y, W):
                    dv = float(np.linalg.norm(G - H))
                    worst = max(worst, dv)
                    per_core_ok = per_core_ok and dv <= e * np.sqrt(q) * (1 + 1e-9) + floor
                res.check(per_core_ok, 'roundtrip.core', case,
                          lambda: 'a core changed by %.3e > e*sqrt(q) = %.3e' % (worst, e * np.sqrt(q)), tags + ['roundtrip'])
                if e <= 1e-6:
                    dev = float(np.linalg.norm(ref.dense(W) - D))
                    res.check(dev <= 1e-5 * max(nD, 1e-300) * d + 1e-300, 'roundtrip.dense', case,
                              lambda: 'dense export changed by %.3e (norm %.3e)' % (dev, nD), tags + ['roundtrip'])
                    res.check(np.abs(vq - D[tuple(grid.T)]).max() <= 1e-5 * max(np.abs(D).max(), 1e-300) * d, 'entry', case,
                              'QTT entry at the binary expansion differs from the TT entry', tags + ['entry'])
            if q >= 2:
                res.nt((shape, c['ranks'], c['kind'], c.get('pos'), e, r))
            res.outcome(tuple(rz))
    # non power of two
    for badn in (3, 6):
        res.ev()
        try:
            teneva.tt_to_qtt(space.tt([badn] * 2, [1, 2, 1], 'gen', seed))
            got = None
        except ValueError:
            got = 'ValueError'
        except Exception as ex:
            got = type(ex).__name__
        res.check(got == 'ValueError', 'reject', dict(c, n=badn), lambda: 'mode size %d gave %r' % (badn, got), tags)
    return res


def check_mixed(c):
    """Mode sizes that are different powers of two (each core is split on its own), and a non-power-of-two size at every position."""
    res = Res()
    seed = c.get('seed', 0)
    shape = c['shape']
    d = len(shape)
    res.ev()
    if c.get('bad') is not None:
        Y = space.tt(shape, c['ranks'], 'gen', seed, tag=18)
        try:
            with warnings.catch_warnings():
                warnings.simplefilter('ignore')
                teneva.tt_to_qtt(Y)
            got = None
        except ValueError:
            got = 'ValueError'
        except Exception as ex:
            got = type(ex).__name__
        res.check(got == 'ValueError', 'reject.position', c, lambda: 'shape %s (mode %d is not a power of two) gave %r' % (shape, c['bad'], got))
        res.nt((tuple(shape), 'bad'))
        return res
    Y = space.tt(shape, c['ranks'], c['kind'], seed, tag=18)
    D = ref.dense(Y)
    qs = [int(np.log2(n)) for n in shape]
    with warnings.catch_warnings():
        warnings.simplefilter('ignore')
        Z = teneva.tt_to_qtt(Y, 1e-13, 10 ** 6)
    why = ref.wellformed(Z, [2] * sum(qs))
    if res.check(why is None and ref.finite(Z), 'mixed.wellformed', c, lambda: 'shape %s: %s (cores %s)' % (shape, why, [G.shape for G in Z])):
        # every entry: little-endian bits of each index, mode by mode
        E = ref.dense(Z)
        worst = 0.0
        for idx in space.grid_array(shape):
            bits = [b for i, q in zip(idx, qs) for b in ref.bits_le(int(i), q)]
            worst = max(worst, abs(E[tuple(bits)] - D[tuple(idx)]))
        res.check(worst <= 1e-10 * max(np.abs(D).max(), 1e-300), 'mixed.entry', c, lambda: 'entries differ by %.3e' % worst)
        rz = [1] + [G.shape[2] for G in Z]
        pos, okb = 0, True
        for k, q in enumerate(qs):
            pos += q
            okb = okb and rz[pos] == Y[k].shape[2]
        res.check(okb, 'mixed.bonds', c, lambda: 'QTT ranks %s do not carry the TT ranks %s at the mode borders' % (rz, [G.shape[2] for G in Y]))
    res.nt((tuple(shape), tuple(c['ranks']), c['kind']))
    return res


def check_alternate(c):
    """BFS over alternating conversions: a QTT produced by one conversion is the input of the next."""
    res = Res()
    seed = c.get('seed', 0)
    Y = _tensor(c, seed)
    shape = c['shape']
    d = len(shape)
    q = int(np.log2(shape[0]))
    D = ref.dense(Y)
    nD = float(np.linalg.norm(D))
    cur = Y
    seen = set()
    for step in range(c['depth']):
        for (e, r) in c['opts']:
            res.ev()
            with warnings.catch_warnings():
                warnings.simplefilter('ignore')
                Z = teneva.tt_to_qtt(cur, e, r)
                W = teneva.qtt_to_tt(Z, q)
            res.tr(2)
            k1, k2 = digest(ref.core_bytes(Z)), digest(ref.core_bytes(W))
            res.state(k1)
            res.state(k2)
            dev = float(np.linalg.norm(ref.dense(W) - D))
            res.check(ref.wellformed(W, shape) is None and dev <= 1e-5 * max(nD, 1e-300) * (step + 1) * d, 'alternate', dict(c, step=step, e=e, r=r),
                      lambda: 'after %d round trips the tensor drifted by %.3e' % (step + 1, dev))
        cur = W
        res.nt((shape, c['ranks'], c['kind'], step))
    return res


CHECKERS = {'mixed': check_mixed, 'maps': check_maps, 'conv': check_conv, 'alternate': check_alternate}


def strata(tier, seed):
    lim = 10 if tier == 'quick' else 16
    ms = [dict(d=d, q=q, long=(40001 if (d, q) in ((2, 3), (3, 2), (1, 5)) else 0)) for d in range(1, 17) for q in range(1, 17) if d * q <= lim]
    yield Stratum('index maps on their complete domain', ms, 'maps', seq=(tier == 'quick'), size=len(ms), chunk=1, bounds={'q*d': '<= %d' % lim})
    cs = []
    for d in ((1, 2, 3) if tier == 'quick' else (1, 2, 3, 4)):
        for q in ((1, 2, 3) if tier == 'quick' else (1, 2, 3, 4)):
            if d * q > (6 if tier == 'quick' else 12):
                continue
            n = 2 ** q
            profs = space.rank_profiles(d, [1, 2, 3, 4] if (d <= 2) else ([1, 3] if tier == 'quick' else ([1, 2, 4] if d == 3 else [1, 3])))
            for rk in profs:
                for kind in (('gen', 'intA') if tier == 'quick' else ('gen', 'intA', 'intB', 'intC')):
                    cs.append(dict(shape=[n] * d, ranks=rk, kind=kind, caps=[1, 2, 100, 1e12], seed=seed))
            for pos in itertools.product(range(n), repeat=d):
                cs.append(dict(shape=[n] * d, ranks=[1] + [2] * (d - 1) + [1], kind='delta', pos=list(pos), caps=[1, 100], seed=seed))
    for d, q in ((1, 3), (1, 4), (2, 3), (3, 2), (2, 4), (3, 3)):
        n = 2 ** q
        if d * q <= (8 if tier == 'quick' else 12):
            cs.append(dict(shape=[n] * d, ranks=[1] + [2] * (d - 1) + [1], kind='sine', caps=[2, 3, 4, 5, 100], seed=seed))
    for d, q in ((1, 4), (1, 5), (2, 4), (2, 5)):
        n = 2 ** q
        for rk in ([[1, 1]] if d == 1 else [[1, 1, 1], [1, 3, 1], [1, 7, 1]]):
            for kind in ('gen', 'intA'):
                cs.append(dict(shape=[n] * d, ranks=rk, kind=kind, caps=[2, 100, 1e12], seed=seed))
        for pos in ([[0] * d, [n - 1] * d, [5] * d, [n // 2 + 1] + [3] * (d - 1)]):
            cs.append(dict(shape=[n] * d, ranks=[1] + [2] * (d - 1) + [1], kind='delta', pos=pos, caps=[1, 100], seed=seed))
    yield Stratum('tt <-> qtt conversion', cs, 'conv', seq=(tier == 'quick'), size=len(cs), chunk=8, bounds={'d': [1, 3 if tier == 'quick' else 4], 'q': [1, 3 if tier == 'quick' else 4], 'd*q': 6 if tier == 'quick' else 12})
    mx = []
    pw = (2, 4, 8) if tier == 'quick' else (2, 4, 8, 16)
    for d in (2, 3):
        for sh in itertools.product(pw, repeat=d):
            if len(set(sh)) == 1 or np.prod(sh) > 256:
                continue
            for rk in space.rank_profiles(d, [1, 2] if tier == 'quick' else [1, 2, 3]):
                for kind in ('gen', 'intA'):
                    mx.append(dict(shape=list(sh), ranks=rk, kind=kind, seed=seed))
    for d in (1, 2, 3, 4):
        for pos in range(d):
            for bad in (3, 5, 6, 12):
                for other in (2, 4):
                    sh = [other] * d
                    sh[pos] = bad
                    mx.append(dict(shape=sh, ranks=[1] + [2] * (d - 1) + [1], bad=pos, seed=seed))
    yield Stratum('different powers of two per mode; a bad mode size at every position', mx, 'mixed', seq=(tier == 'quick'), size=len(mx), chunk=8,
                  bounds={'mode sizes': list(pw), 'd': [1, 4]})
    al = [dict(shape=[2 ** q] * d, ranks=rk, kind='gen', depth=4 if tier == 'quick' else 6, opts=[(1e-12, 100), (1e-8, 1e12)], seed=seed)
          for d in (1, 2, 3, 4) for q in (1, 2, 3, 4) if d * q <= (6 if tier == 'quick' else 9) for rk in space.rank_profiles(d, [1, 3] if tier == 'quick' else [1, 2, 3])]
    yield Stratum('alternating conversions', al, 'alternate', seq=(tier == 'quick'), size=len(al), chunk=4, bounds={'depth': 4 if tier == 'quick' else 6})
