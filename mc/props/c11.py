"""C11 - degenerate but valid inputs give well-formed finite tensors, never NaN.  Mode L:
degenerate families x routines x every mode / flag combination."""
import contextlib
import io
import itertools
import warnings

import numpy as np
import teneva

from mc import ref, space
from mc.engine import Res, Stratum

ID = 'C11'
REGISTERED = True
LEVEL = 'exploration'
TECHNIQUE = ('exhaustive lattice enumeration: degenerate input families (exactly zero by three constructions and '
             'by a zero core at every position, cancellation Y-Y, rank-deficient, over-ranked, rank 1, d=2, mode size 1 '
             'at every position, constant data, repeated samples) x every TT-returning routine x all flag combinations, '
             'independent structural validator')
LEVEL_TEXT = ('each (family member, routine, flag combination) of a finite product is executed on the real code; the '
              'result must pass an independent well-formedness validator, be finite, be accepted by teneva.show, and '
              'its scalar functionals must be finite; the corners (zero singular values, empty tails, size-1 modes) are '
              'exactly the inputs a sampled test never contains')
LEVEL_NOTE = ('bounded: d <= 4, n <= 4, ranks <= 4; value patterns from the catalogue; the check decides well-formedness '
              'and finiteness only (accuracy is the business of C02-C07, C13)')
RULE = ('cases = product(family member, routine, options) as listed in TECHNIQUE; every returned TT-tensor is validated. '
        'Non-trivial: the input really is degenerate by its family rule (zero norm / rank-deficient unfolding / size-1 mode / '
        'constant or repeated data); distinct = (family member, routine, options).')
ASSUMPTIONS = [
    'a Chebyshev transform of a mode of size 1 and tt_to_qtt of a mode of size 1 are invalid inputs (grids need n >= 2, QTT needs q >= 1)',
    'accuracy_on_data with all-zero reference data documents -1 only for missing data; observed, not judged',
    'als_func is driven with thr_pow=0 (mode-size pruning off) so that "expected mode sizes" is well defined',
]


def families(shape, seed):
    """name -> TT-tensor; all valid, all degenerate in some way."""
    d = len(shape)
    out = {}
    r2 = [1] + [2] * (d - 1) + [1]
    r3 = [1] + [3] * (d - 1) + [1]
    gen = space.tt(shape, r2, 'gen', seed, tag=5)
    out['zero.const'] = teneva.const(shape, 0.)
    out['zero.mul0'] = teneva.mul(gen, 0)
    out['zero.sub'] = teneva.sub(gen, gen)
    for k in range(d):
        Z = [G.copy() for G in gen]
        Z[k][...] = 0.
        out['zero.core%d' % k] = Z
    out['dup'] = space.tt(shape, r3, 'dup', seed)
    out['overranked'] = space.tt(shape, [1] + [4] * (d - 1) + [1], 'gen', seed, tag=6)
    out['rank1'] = space.tt(shape, [1] * (d + 1), 'gen', seed, tag=7)
    out['ones'] = space.tt(shape, [1] * (d + 1), 'ones', seed)
    out['ones.r2'] = space.tt(shape, r2, 'ones', seed)
    out['int'] = space.tt(shape, r2, 'intA', seed)
    out['sum_cancel'] = teneva.add(gen, teneva.mul(gen, -1.0))
    # integer-typed cores (small integers stored as int64): rank 1 and rank 2
    out['inttyped.r1'] = [G.astype(np.int64) for G in space.tt(shape, [1] * (d + 1), 'intA', seed)]
    out['inttyped.r2'] = [G.astype(np.int64) for G in space.tt(shape, r2, 'intA', seed)]
    return out


def validate(res, case, Y, shape, what, tags=()):
    why = ref.wellformed(Y, shape)
    ok = res.check(why is None, what + '.wellformed', case, lambda: '%s: %s' % (what, why), list(tags) + [what])
    if not ok:
        return False
    fin = ref.finite(Y)
    res.check(fin, what + '.finite', case,
              lambda: '%s: non-finite entries in cores %s' % (what, [k for k, G in enumerate(Y) if not np.all(np.isfinite(G))]),
              list(tags) + [what, 'nan'])
    if not fin:
        return False
    try:
        with contextlib.redirect_stdout(io.StringIO()), warnings.catch_warnings():
            warnings.simplefilter('ignore')
            teneva.show(Y)
        res.ok(what + '.show')
    except Exception as ex:
        res.fail(what + '.show', case, 'teneva.show rejected the result: %r' % (ex,), list(tags) + [what])
    with warnings.catch_warnings():
        warnings.simplefilter('ignore')
        vals = {'norm': teneva.norm(Y), 'sum': teneva.sum(Y), 'mean': teneva.mean(Y),
                'mul_scalar': teneva.mul_scalar(Y, Y)}
        if len(Y) >= 2:       # the effective rank is defined for d >= 2
            vals['erank'] = teneva.erank(Y)
    bad = {k: v for k, v in vals.items() if not np.isfinite(v)}
    res.check(not bad, what + '.scalars', case, lambda: 'non-finite functionals %s' % bad, list(tags) + [what])
    return True


def _call(res, case, what, fn, tags=()):
    res.ev()
    try:
        with warnings.catch_warnings():
            warnings.simplefilter('ignore')
            return True, fn()
    except Exception as ex:
        res.fail(what + '.raised', case, '%s raised %s: %s' % (what, type(ex).__name__, str(ex)[:200]),
                 list(tags) + [what, 'exception'])
        return False, None


def check_transform(c):
    """truncate / orthogonalize / svd / algebra / QTT on every family member of one shape."""
    res = Res()
    seed = c.get('seed', 0)
    shape = c['shape']
    d = len(shape)
    fam = families(shape, seed)
    for name, Y in fam.items():
        tg = ['family=' + name.split('.')[0]]
        base = dict(shape=shape, family=name, seed=seed, _checker='transform')
        res.nt((shape, name))
        zero_ref = teneva.const(shape, 0.)
        # sentinel of an undefined relative accuracy
        ok, a = _call(res, dict(base, routine='accuracy'), 'accuracy', lambda: teneva.accuracy(Y, zero_ref), tg)
        if ok:
            res.check(a == -1, 'accuracy.sentinel', dict(base, routine='accuracy'),
                      lambda: 'accuracy against a zero reference returned %r (documented sentinel -1)' % (a,), tg)
        # missing data: each of the two optional pieces alone, and both
        gI = space.grid_array(shape)[:4]
        gy = np.arange(len(gI)) + 1.0
        for lbl, (Id, yd) in (('no_y', (gI, None)), ('no_I', (None, gy)), ('none', (None, None))):
            ok, a = _call(res, dict(base, routine='accuracy_on_data.' + lbl), 'accuracy_on_data', lambda: teneva.accuracy_on_data(Y, Id, yd), tg)
            if ok:
                res.check(a == -1, 'accuracy_on_data.sentinel', dict(base, routine='accuracy_on_data.' + lbl),
                          lambda: 'accuracy_on_data with missing data (%s) returned %r (documented sentinel -1)' % (lbl, a), tg)
        ok, a = _call(res, dict(base, routine='accuracy.self'), 'accuracy', lambda: teneva.accuracy(Y, Y), tg)
        if ok:
            res.check(np.isfinite(a), 'accuracy.finite', dict(base, routine='accuracy.self'), lambda: repr(a), tg)
        # truncate
        for eigh, stab, orth in itertools.product((True, False), (False, True), (True, False)):
            for e in (1e-10, 1e-2):
                for r in (1, 2, 1e12):
                    case = dict(base, routine='truncate', eigh=eigh, stab=stab, orth=orth, e=e, r=r)
                    ok, Z = _call(res, case, 'truncate',
                                  lambda: teneva.truncate(Y, e, r, orth=orth, use_stab=stab, is_eigh=eigh), tg)
                    if ok:
                        validate(res, case, Z, shape, 'truncate', tg + ['eigh' if eigh else 'svd'])
        # orthogonalize
        for k in range(d):
            for stab in (False, True):
                case = dict(base, routine='orthogonalize', k=k, stab=stab)
                ok, Z = _call(res, case, 'orthogonalize', lambda: teneva.orthogonalize(Y, k, use_stab=stab), tg)
                if ok:
                    if stab:
                        good = isinstance(Z, tuple) and len(Z) == 2 and np.isfinite(Z[1])
                        res.check(good, 'orthogonalize.pair', case, 'stab result is not (Z, p)', tg)
                        Z = Z[0] if good else None
                    if Z is not None:
                        validate(res, case, Z, shape, 'orthogonalize', tg)
        for i in (range(d - 1) if not name.startswith('inttyped') else []):      # the single steps return the untouched cores as they came
            case = dict(base, routine='orthogonalize_left', i=i)
            ok, Z = _call(res, case, 'orthogonalize_left', lambda: teneva.orthogonalize_left(Y, i), tg)
            if ok:
                validate(res, case, Z, shape, 'orthogonalize_left', tg)
            case = dict(base, routine='orthogonalize_right', i=i + 1)
            ok, Z = _call(res, case, 'orthogonalize_right', lambda: teneva.orthogonalize_right(Y, i + 1), tg)
            if ok:
                validate(res, case, Z, shape, 'orthogonalize_right', tg)
        # TT-SVD of the dense export
        A = ref.dense(Y)
        for e in (1e-10, 1e-2):
            for r in (1, 2, 1e12):
                case = dict(base, routine='svd', e=e, r=r)
                ok, Z = _call(res, case, 'svd', lambda: teneva.svd(A, e, r), tg)
                if ok:
                    validate(res, case, Z, shape, 'svd', tg)
        # algebra
        other = space.tt(shape, [1] + [2] * (d - 1) + [1], 'gen', seed, tag=9)
        for nm, fn in (('add', lambda: teneva.add(Y, other)), ('sub', lambda: teneva.sub(Y, other)),
                       ('mul', lambda: teneva.mul(Y, other)), ('add.num', lambda: teneva.add(Y, 0.)),
                       ('mul.num', lambda: teneva.mul(Y, 0.)), ('sub.self', lambda: teneva.sub(Y, Y)),
                       ('mul.self', lambda: teneva.mul(Y, Y))):
            if name.startswith('inttyped') and nm in ('mul.num', 'sub.self', 'sub', 'mul.self', 'add', 'mul', 'add.num'):
                continue        # results of plain algebra keep the operand dtype by construction; the float-core claim is about the
                                # transformations / decompositions / fits below
            case = dict(base, routine=nm)
            ok, Z = _call(res, case, nm, fn, tg)
            if ok:
                validate(res, case, Z, shape, nm.split('.')[0], tg)
        for freq in (1, 2, 15):
            for r in (1, 1e12):
                for items in ([Y, Y], [Y, other, 0.], [0., Y], [Y, teneva.mul(Y, -1.)], [Y, other, Y, other]):
                    case = dict(base, routine='add_many', freq=freq, r=r, n_items=len(items))
                    ok, Z = _call(res, case, 'add_many', lambda: teneva.add_many(items, e=1e-8, r=r, trunc_freq=freq), tg)
                    if ok:
                        validate(res, case, Z, shape, 'add_many', tg)
        # QTT
        if all(n in (2, 4) for n in shape):
            for e, r in ((1e-12, 100), (1e-2, 100), (1e-12, 1)):
                case = dict(base, routine='tt_to_qtt', e=e, r=r)
                if len(set(shape)) == 1:
                    q = int(np.log2(shape[0]))
                    ok, Z = _call(res, case, 'tt_to_qtt', lambda: teneva.tt_to_qtt(Y, e, r), tg)
                    if ok and validate(res, case, Z, [2] * (q * d), 'tt_to_qtt', tg):
                        ok, W = _call(res, dict(case, routine='qtt_to_tt'), 'qtt_to_tt', lambda: teneva.qtt_to_tt(Z, q), tg)
                        if ok:
                            validate(res, dict(case, routine='qtt_to_tt'), W, shape, 'qtt_to_tt', tg)
        # Chebyshev transforms
        if all(n >= 2 for n in shape):
            for kind in ('cheb', 'sin'):
                case = dict(base, routine='func_int', kind=kind)
                ok, Acf = _call(res, case, 'func_int', lambda: teneva.func_int(Y, kind), tg)
                if ok and validate(res, case, Acf, shape, 'func_int', tg):
                    for m in (None, 2, 5):
                        case2 = dict(base, routine='func_gets', kind=kind, m=m)
                        ok, Z = _call(res, case2, 'func_gets', lambda: teneva.func_gets(Acf, m, kind), tg)
                        if ok:
                            validate(res, case2, Z, shape if m is None else [m] * d, 'func_gets', tg)
    return res


def check_fit(c):
    """cross / als / als_func / anova / anova_func on degenerate data."""
    res = Res()
    seed = c.get('seed', 0)
    shape = c['shape']
    d = len(shape)
    fam = families(shape, seed)
    grid = space.grid_array(shape)
    for name in c['members']:
        Y = fam[name]
        tg = ['family=' + name.split('.')[0]]
        base = dict(shape=shape, family=name, seed=seed, _checker='fit', members=[name])
        T = ref.dense(Y)
        res.nt((shape, name, 'fit'))
        # --- cross -----------------------------------------------------------------
        for r0 in (1, 2):
            for dr in ((0, 0), (1, 1), (0, 2)):
                for cache in (False, True):
                    case = dict(base, routine='cross', r0=r0, dr=list(dr), cache=cache)
                    Y0 = space.tt(shape, [1] + [r0] * (d - 1) + [1], 'gen', seed, tag=31)

                    def run():
                        info = {}
                        return teneva.cross(lambda I: T[tuple(np.asarray(I).T)], Y0, nswp=2, dr_min=dr[0], dr_max=dr[1],
                                            info=info, cache={} if cache else None)
                    ok, Z = _call(res, case, 'cross', run, tg)
                    if ok:
                        validate(res, case, Z, shape, 'cross', tg)
        # --- als on the full grid, repeated samples ------------------------------------
        I_trn = np.vstack([grid, grid[::-1]]) if c.get('repeat', True) else grid
        y_trn = T[tuple(I_trn.T)]
        for r0 in (1, 2):
            Y0 = space.tt(shape, [1] + [r0] * (d - 1) + [1], 'gen', seed, tag=32)
            for lamb in (1e-3, 1.0):
                for w in (None, 'w'):
                    ww = None if w is None else (1.0 + (np.arange(len(y_trn)) % 3))
                    case = dict(base, routine='als', r0=r0, lamb=lamb, w=w)
                    ok, Z = _call(res, case, 'als', lambda: teneva.als(I_trn, y_trn, Y0, nswp=3, info={}, lamb=lamb, w=ww), tg)
                    if ok:
                        validate(res, case, Z, shape, 'als', tg)
            for lbl, kwv in (('I_vld_only', dict(I_vld=grid[:3])), ('y_vld_only', dict(y_vld=np.ones(3)))):
                case = dict(base, routine='als.' + lbl, r0=r0)
                inf = {}
                ok, Z = _call(res, case, 'als', lambda: teneva.als(I_trn, y_trn, Y0, nswp=2, info=inf, lamb=1e-3, **kwv), tg)
                if ok:
                    validate(res, case, Z, shape, 'als', tg)
                    res.check(inf.get('e_vld') == -1, 'e_vld.sentinel', case,
                              lambda: "als with %s: info['e_vld']=%r (documented sentinel -1 for missing validation data)" % (lbl, inf.get('e_vld')), tg)
            if r0 == 1:
                for lbl, kwv in (('I_vld_only', dict(I_vld=grid[:3])), ('y_vld_only', dict(y_vld=np.ones(3)))):
                    case = dict(base, routine='cross.' + lbl)
                    inf = {}
                    ok, Z = _call(res, case, 'cross', lambda: teneva.cross(lambda I: T[tuple(np.asarray(I).T)], Y0, nswp=2, info=inf, **kwv), tg)
                    if ok:
                        validate(res, case, Z, shape, 'cross', tg)
                        res.check(inf.get('e_vld') == -1, 'e_vld.sentinel', case,
                                  lambda: "cross with %s: info['e_vld']=%r (documented sentinel -1)" % (lbl, inf.get('e_vld')), tg)
            if d >= 3 and r0 == 2:
                # initial approximations whose ranks exceed what a core can carry (the orthogonalisation of the adaptive mode shrinks them)
                for rbig in (max(shape) + 2, 2 * max(shape) + 1):
                    Yb = space.tt(shape, [1] + [rbig] * (d - 1) + [1], 'gen', seed, tag=33)
                    for stab in (False, True):
                        case = dict(base, routine='als.adaptive.overranked', r0=rbig, r=rbig, stab=stab)
                        ok, Z = _call(res, case, 'als.adaptive',
                                      lambda: teneva.als(I_trn, y_trn, Yb, nswp=2, info={}, r=rbig, lamb=1e-3, use_stab=stab), tg)
                        if ok:
                            validate(res, case, Z, shape, 'als.adaptive', tg)
                    case = dict(base, routine='als.overranked', r0=rbig)
                    ok, Z = _call(res, case, 'als', lambda: teneva.als(I_trn, y_trn, Yb, nswp=2, info={}, lamb=1e-3), tg)
                    if ok:
                        validate(res, case, Z, shape, 'als', tg)
            if d >= 3:
                for r in (1, 2, 3):
                    if r < r0:
                        continue
                    for stab in (False, True):
                        case = dict(base, routine='als.adaptive', r0=r0, r=r, stab=stab)
                        ok, Z = _call(res, case, 'als.adaptive',
                                      lambda: teneva.als(I_trn, y_trn, Y0, nswp=2, info={}, r=r, lamb=1e-3, use_stab=stab), tg)
                        if ok:
                            validate(res, case, Z, shape, 'als.adaptive', tg)
        # --- anova -----------------------------------------------------------------
        for order in (1, 2):
            for r in (2, 3):
                for noise in (0., 1e-10):
                    case = dict(base, routine='anova', order=order, r=r, noise=noise)
                    ok, Z = _call(res, case, 'anova', lambda: teneva.anova(I_trn, y_trn, r, order, noise, seed=1), tg)
                    if ok:
                        validate(res, case, Z, shape, 'anova', tg)
        # sparse repeated samples: every index of every mode occurs, but most index pairs never occur together
        nmax = max(shape)
        I_diag = np.array([[j % n for n in shape] for j in range(nmax)] * 3)
        y_diag = T[tuple(I_diag.T)]
        for order in (1, 2):
            for r in (2, 3):
                case = dict(base, routine='anova.sparse', order=order, r=r)
                ok, Z = _call(res, case, 'anova', lambda: teneva.anova(I_diag, y_diag, r, order, 1e-10, seed=1), tg)
                if ok:
                    validate(res, case, Z, shape, 'anova', tg)
        case = dict(base, routine='als.sparse')
        ok, Z = _call(res, case, 'als', lambda: teneva.als(I_diag, y_diag, space.tt(shape, [1] + [2] * (d - 1) + [1], 'gen', seed, tag=32),
                                                          nswp=2, info={}, lamb=1e-3), tg)
        if ok:
            validate(res, case, Z, shape, 'als', tg)
        # single repeated sample: the observed domain has size 1 in every mode
        I_one = np.array([[0] * d] * 3)
        y_one = np.array([T[(0,) * d]] * 3)
        for order in (1, 2):
            case = dict(base, routine='anova.one_sample', order=order)
            ok, Z = _call(res, case, 'anova', lambda: teneva.anova(I_one, y_one, 2, order, 1e-10, seed=1), tg)
            if ok:
                validate(res, case, Z, [1] * d, 'anova', tg)
        # --- functional variants -----------------------------------------------------
        if all(n >= 2 for n in shape) and len(set(shape)) == 1:
            n = shape[0]
            X = teneva.ind_to_poi(I_trn, -1., 1., n, 'cheb')
            for lamb in (1e-7, 1e-2, 0.0):
                for e in (None, 1e-8):
                    case = dict(base, routine='anova_func', lamb=lamb, e=e)
                    ok, Z = _call(res, case, 'anova_func', lambda: teneva.anova_func(X, y_trn, n, -1., 1., lamb, e), tg)
                    if ok:
                        validate(res, case, Z, shape, 'anova_func', tg)
                    # all samples at one point / fewer distinct points than basis functions: rank-deficient design
                    X1 = np.zeros((12, d)) + 0.25
                    y1 = np.full(12, float(T[(0,) * d]))
                    case = dict(base, routine='anova_func.one_point', lamb=lamb, e=e)
                    ok, Z = _call(res, case, 'anova_func', lambda: teneva.anova_func(X1, y1, n, -1., 1., lamb, e), tg)
                    if ok:
                        validate(res, case, Z, shape, 'anova_func', tg)
                    X2 = X[:2]
                    case = dict(base, routine='anova_func.two_points', lamb=lamb, e=e)
                    ok, Z = _call(res, case, 'anova_func', lambda: teneva.anova_func(X2, y_trn[:2], n, -1., 1., lamb, e), tg)
                    if ok:
                        validate(res, case, Z, shape, 'anova_func', tg)
            for r0 in (1, 2):
                A0 = space.tt(shape, [1] + [r0] * (d - 1) + [1], 'gen', seed, tag=33)
                case = dict(base, routine='als_func', r0=r0)
                ok, Z = _call(res, case, 'als_func',
                              lambda: teneva.als_func(X, y_trn, A0, -1., 1., nswp=2, info={}, lamb=1e-3, thr_pow=0.), tg)
                if ok:
                    validate(res, case, Z, shape, 'als_func', tg)
    return res


def check_matrix(c):
    """The matrix-level building blocks on degenerate matrices."""
    res = Res()
    m, n = c['m'], c['n']
    mats = {'zero': np.zeros((m, n)), 'ones': np.ones((m, n)),
            'rank1': np.outer(np.arange(1, m + 1), np.arange(1, n + 1)).astype(float),
            'onecol': np.eye(m, n)[:, :1] @ np.ones((1, n))}
    for name, A in mats.items():
        tg = ['matrix=' + name]
        res.nt((m, n, name))
        for e in (1e-10, 1e-2, 10.0):
            for r in (1, 2, 1e12):
                for fn, kw in [('matrix_svd', {})] + [('matrix_skeleton', dict(give_to=g, rel=rel))
                                                      for g in 'mlr' for rel in (False, True)]:
                    case = dict(c, matrix=name, e=e, r=r, fn=fn, **kw)
                    if name == 'zero' and kw.get('rel'):
                        continue      # relative threshold of an all-zero spectrum is undefined (0/0): not a valid request
                    ok, UV = _call(res, case, fn, lambda: getattr(teneva, fn)(A, e, r, **kw), tg)
                    if ok:
                        U, V = UV
                        good = (U.ndim == 2 and V.ndim == 2 and U.shape[0] == m and V.shape[1] == n
                                and U.shape[1] == V.shape[0] >= 1)
                        res.check(good, fn + '.shapes', case, lambda: 'U %s V %s' % (U.shape, V.shape), tg)
                        res.check(np.all(np.isfinite(U)) and np.all(np.isfinite(V)), fn + '.finite', case,
                                  'non-finite factor entries', tg + ['nan'])
        if m == n and m in (2, 4, 8):
            for e, r in ((1e-10, 1e12), (1e-2, 1)):
                case = dict(c, matrix=name, routine='svd_matrix', e=e, r=r)
                ok, Z = _call(res, case, 'svd_matrix', lambda: teneva.svd_matrix(A, e, r), tg)
                if ok:
                    validate(res, case, Z, [4] * int(np.log2(m)), 'svd_matrix', tg)
    return res


CHECKERS = {'transform': check_transform, 'fit': check_fit, 'matrix': check_matrix}

MEMBERS = ['zero.const', 'zero.mul0', 'zero.sub', 'zero.core0', 'zero.core1', 'dup', 'overranked', 'rank1',
           'ones', 'ones.r2', 'int', 'sum_cancel']


def strata(tier, seed):
    if tier == 'quick':
        shapes = [[2, 2], [3, 2], [1, 3], [3, 1], [4, 4], [2, 2, 2], [2, 1, 3], [1, 2, 2], [3, 2, 1], [2, 2, 2, 2]]
        fshapes = [[2, 2], [3, 2], [1, 3], [2, 2, 2], [2, 1, 3], [3, 3, 3]]
    else:
        shapes = space.shapes([2], [1, 2, 3, 4]) + space.shapes([3], [1, 2, 3]) + space.shapes([4], [1, 2]) + [[4, 4, 4]]
        fshapes = space.shapes([2], [1, 2, 3]) + space.shapes([3], [1, 2, 3]) + [[2, 2, 2, 2], [4, 4]]
    cs = [dict(shape=s, seed=seed) for s in shapes]
    yield Stratum('transformations', cs, 'transform', size=len(cs), chunk=1, bounds={'shapes': len(cs)})
    fs = [dict(shape=s, members=[m], seed=seed) for s in fshapes for m in MEMBERS]
    yield Stratum('fitting', fs, 'fit', size=len(fs), chunk=1, bounds={'shapes': len(fshapes), 'members': MEMBERS})
    top = 4 if tier == 'quick' else 8
    ms = [dict(m=m, n=n, seed=seed) for m in range(1, top + 1) for n in range(1, top + 1)]
    yield Stratum('matrix-factorisations', ms, 'matrix', seq=True, size=len(ms), chunk=2, bounds={'m,n': '1..%d' % top})
