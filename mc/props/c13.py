"""C13 - TT-ANOVA cores encode exactly the additive model estimated from the data.  Mode L:
ALL non-empty subsets of small grids as sample sets (plus every subset with one duplicated
sample) x order x rank x noise x seed; the functional variant on point sets."""
import itertools
import warnings

import numpy as np
import teneva

from mc import ref, space
from mc.engine import Res, Stratum

ID = 'C13'
REGISTERED = True
LEVEL = 'exploration'
TECHNIQUE = ('exhaustive lattice enumeration: every non-empty subset of the grids [2,3], [2,2,2], [2,3,2] (and each with one '
             'duplicated sample) as training set x order {1,2} x rank x noise x seed; independent recomputation of the constant, '
             'the conditional means and the pair terms over the observed domain; functional variant vs independently '
             'ridge-fitted one-dimensional Chebyshev expansions')
LEVEL_TEXT = ('sparse sample sets change the observed domain, leave index pairs without data and make conditional means coincide; '
              'enumerating all subsets reaches every such configuration, and each build is compared entry-by-entry with the model '
              'recomputed from the definition, with a rigorous bound for the injected noise')
LEVEL_NOTE = ('bounded: grids up to 12 points (4095 subsets), r in {2,3,6}, noise in {0,1e-10,1e-3}, seeds {0,1}; order-2 values are '
              'claimed only when r is at least the numerical TT-rank of the dense order-2 model; noise draws assumed within 6 sigma')
RULE = ('cases = subsets (as bit masks) of a grid; per subset all configurations. Non-trivial: a subset that is not the full grid '
        '(sparse: observed domain or pair coverage is incomplete) or has a duplicate; distinct = (grid, subset, duplicate).')
ASSUMPTIONS = ['|normal draw| <= 6 for the noise entries (deterministic given the seeds; asserted)', 'r >= 2']


def yfun(I, occ):
    I = np.asarray(I, dtype=float)
    w = np.arange(1, I.shape[1] + 1)
    return 0.5 + I @ w + 0.75 * np.prod(I + 1, axis=1) - 0.3 * I[:, 0] * I[:, -1] + 0.1 * np.asarray(occ)


def model(I, y):
    """Independent recomputation: domain, f0, f1, f2 over the observed domain."""
    I = np.asarray(I)
    d = I.shape[1]
    dom = [sorted(set(I[:, k].tolist())) for k in range(d)]
    f0 = float(np.sum(y) / len(y))
    f1 = []
    for k in range(d):
        f1.append(np.array([np.mean(y[I[:, k] == x]) - f0 for x in dom[k]]))
    f2 = {}
    for k1 in range(d - 1):
        for k2 in range(k1 + 1, d):
            M = np.zeros((len(dom[k1]), len(dom[k2])))
            for a, x1 in enumerate(dom[k1]):
                for b, x2 in enumerate(dom[k2]):
                    sel = (I[:, k1] == x1) & (I[:, k2] == x2)
                    if sel.any():
                        M[a, b] = np.mean(y[sel]) - f0 - f1[k1][a] - f1[k2][b]
            f2[(k1, k2)] = M
    shape = [len(x) for x in dom]
    M1 = np.full(shape, f0)
    for k in range(d):
        sh = [1] * d
        sh[k] = shape[k]
        M1 = M1 + f1[k].reshape(sh)
    M2 = M1.copy()
    for (k1, k2), M in f2.items():
        sh = [1] * d
        sh[k1], sh[k2] = shape[k1], shape[k2]
        M2 = M2 + M.reshape(sh)
    return dom, f0, f1, f2, M1, M2


def check_subset(c):
    res = Res()
    grid = space.grid_array(c['grid'])
    d = grid.shape[1]
    for mask in c['masks']:
        sel = [j for j in range(len(grid)) if (mask >> j) & 1]
        for dup in ([None] + (sel if c.get('dups') else [])):
            rows = sel + ([dup] if dup is not None else [])
            I = grid[rows]
            occ = [rows[:j].count(rw) for j, rw in enumerate(rows)]
            y = yfun(I, occ)
            dom, f0, f1, f2, M1, M2 = model(I, y)
            shape = [len(x) for x in dom]
            tnum = None
            for (order, r, noise, sd) in c['configs']:
                res.ev()
                case = dict(grid=c['grid'], masks=[mask], dups=bool(c.get('dups')), dup=dup, configs=[[order, r, noise, sd]])
                tags = ['order=%d' % order, 'noise=%g' % noise]
                I0, y0 = I.copy(), y.copy()
                try:
                    with warnings.catch_warnings():
                        warnings.simplefilter('ignore')
                        Y = teneva.anova(I, y, r, order, noise, seed=sd)
                except Exception as ex:
                    res.fail('raised', case, 'anova raised %s: %s' % (type(ex).__name__, str(ex)[:150]), tags + ['exception'])
                    continue
                res.check(np.array_equal(I, I0) and np.array_equal(y, y0), 'input_untouched', case, 'training data modified', tags)
                why = ref.wellformed(Y, shape)
                if not res.check(why is None and ref.finite(Y), 'shape', case, lambda: 'observed sizes %s: %s' % (shape, why), tags):
                    continue
                rk = [G.shape[2] for G in Y[:-1]]
                if order == 1:
                    res.check(all(x == r for x in rk), 'ranks', case, lambda: 'ranks %s, requested %d' % (rk, r), tags)
                    # structure: exact pattern entries, everything else within the noise
                    okp, okn = True, True
                    for k, G in enumerate(Y):
                        P = np.zeros(G.shape)
                        Mk = np.ones(G.shape, dtype=bool)
                        if k == 0:
                            P[0, :, 0] = 1.0
                            P[0, :, 1] = f1[0]
                            Mk[0, :, 0] = Mk[0, :, 1] = False
                        elif k == d - 1:
                            P[0, :, 0] = f1[k] + f0
                            P[1, :, 0] = 1.0
                            Mk[0, :, 0] = Mk[1, :, 0] = False
                        else:
                            P[0, :, 0] = 1.0
                            P[1, :, 1] = 1.0
                            P[0, :, 1] = f1[k]
                            Mk[0, :, 0] = Mk[1, :, 1] = Mk[0, :, 1] = False
                        okp = okp and np.all(np.abs(G - P)[~Mk] <= 1e-13 * (1 + np.abs(P)[~Mk]))
                        okn = okn and np.all(np.abs(G[Mk]) <= 6.0 * noise)
                    res.check(okp, 'pattern', case, 'the constant / per-mode terms are not at their places in the cores', tags + ['pattern'])
                    res.check(okn, 'noise.size', case, 'formally-zero core entries exceed 6 * noise', tags)
                else:
                    res.check(all(x <= r for x in rk), 'ranks', case, lambda: 'ranks %s exceed %d' % (rk, r), tags)
                # values on the observed domain, with a rigorous noise bound
                A = ref.dense(Y)
                absP = [np.abs(G) for G in Y]
                nb = 0.0
                if noise > 0:
                    big = ref.dense([np.abs(G) + 6.0 * noise for G in _pattern_abs(d, shape, f0, f1, r)])
                    small = ref.dense(_pattern_abs(d, shape, f0, f1, r))
                    nb = float((big - small).max())
                if order == 1:
                    dev = float(np.abs(A - M1).max())
                    res.check(dev <= 1e-12 * (1 + np.abs(M1).max()) + nb, 'value', case,
                              lambda: 'order 1: tensor deviates from constant + per-mode terms by %.3e (noise bound %.3e)' % (dev, nb),
                              tags + ['value'])
                else:
                    if tnum is None:
                        tnum = 1
                        for k in range(1, d):
                            s = ref.unfold_sv(M2, k)
                            tnum = max(tnum, int(np.sum(s > 1e-9 * max(s[0], 1e-300))))
                    if r >= tnum:
                        dev = float(np.linalg.norm(A - M2))
                        res.check(dev <= 1e-8 * (1 + np.linalg.norm(M2)) + nb * np.sqrt(A.size) * (1 + r), 'value', case,
                                  lambda: 'order 2: deviates from the model with pair terms by %.3e (rank %d >= %d)' % (dev, r, tnum),
                                  tags + ['value'])
                    else:
                        res.skip('order 2: requested rank below the TT-rank of the dense model')
                # the class's own evaluation
                if sd == c['configs'][0][3] and noise == c['configs'][0][2] and r == c['configs'][0][1]:
                    with warnings.catch_warnings():
                        warnings.simplefilter('ignore')
                        obj = teneva.ANOVA(I, y, order, sd)
                    pts = np.array(list(itertools.product(*dom)))
                    vals = obj(pts)
                    want = (M1 if order == 1 else M2).reshape(-1)
                    res.check(np.abs(vals - want).max() <= 1e-12 * (1 + np.abs(want).max()), 'class.call', case,
                              'ANOVA.__call__ differs from the recomputed model', tags)
                    res.check(abs(obj.f0 - f0) <= 1e-13 * (1 + abs(f0)), 'class.f0', case, 'constant term is not the sample mean', tags)
                    # history on one model object: cores() more than once (several ranks), then evaluation again
                    rr = 2 if order == 1 else max(2, r)
                    with warnings.catch_warnings():
                        warnings.simplefilter('ignore')
                        D1 = ref.dense(obj.cores(rr, 0.))
                        D2 = ref.dense(obj.cores(rr + 1, 0.))
                        D3 = ref.dense(obj.cores(rr, 0.))
                        vals2 = obj(pts)
                    sc = 1e-9 * (1 + np.abs(D1).max())
                    res.check(np.abs(D3 - D1).max() <= sc, 'class.reuse', case,
                              lambda: 'third cores() call on the same model object differs from the first by %.3e' % np.abs(D3 - D1).max(), tags + ['reuse'])
                    if order == 1:
                        res.check(np.abs(D2 - D1).max() <= sc and np.abs(D1 - M1).max() <= sc, 'class.reuse', case,
                                  lambda: 'cores() at another rank on the same object differs by %.3e' % np.abs(D2 - D1).max(), tags + ['reuse'])
                    res.check(np.array_equal(vals2, vals), 'class.reuse', case, 'ANOVA.__call__ changed after cores() were built', tags + ['reuse'])
                    # a small rank first, a sufficient rank afterwards, on ONE object: the second answer is the model (nothing of the first,
                    # truncated answer may survive); and rel_noise = 0 means "no noise" whatever the absolute noise argument says
                    with warnings.catch_warnings():
                        warnings.simplefilter('ignore')
                        obj2 = teneva.ANOVA(I, y, order, sd)
                        obj2.cores(2, 0.)
                        Rbig = 2 if order == 1 else 64
                        Dbig = ref.dense(obj2.cores(Rbig, 0.))
                        Dfresh = ref.dense(teneva.ANOVA(I, y, order, sd).cores(Rbig, 0.))
                        Drel = ref.dense(teneva.ANOVA(I, y, order, sd).cores(Rbig, 1e-2, rel_noise=0.))
                    res.check(np.abs(Dbig - Dfresh).max() <= 1e-9 * (1 + np.abs(Dfresh).max()), 'class.reuse.rank_up', case,
                              lambda: 'cores(%d) after cores(2) on the same object differs from cores(%d) of a fresh object by %.3e' % (Rbig, Rbig, np.abs(Dbig - Dfresh).max()), tags + ['reuse'])
                    res.check(np.abs(Drel - Dfresh).max() <= 1e-9 * (1 + np.abs(Dfresh).max()), 'class.rel_noise_zero', case,
                              lambda: 'cores(noise=1e-2, rel_noise=0.) is not the noise-free tensor (deviation %.3e)' % np.abs(Drel - Dfresh).max(), tags)
            if len(sel) < len(grid) or dup is not None:
                res.nt((c['grid'], mask, dup))
    return res


def _pattern_abs(d, shape, f0, f1, r):
    out = []
    for k in range(d):
        if k == 0:
            P = np.zeros((1, shape[0], r))
            P[0, :, 0] = 1.0
            P[0, :, 1] = np.abs(f1[0])
        elif k == d - 1:
            P = np.zeros((r, shape[k], 1))
            P[0, :, 0] = np.abs(f1[k] + f0)
            P[1, :, 0] = 1.0
        else:
            P = np.zeros((r, shape[k], r))
            P[0, :, 0] = 1.0
            P[1, :, 1] = 1.0
            P[0, :, 1] = np.abs(f1[k])
        out.append(P)
    return out


def check_additive(c):
    """An additive function sampled on a full grid is reproduced exactly."""
    res = Res()
    shape = c['shape']
    d = len(shape)
    grid = space.grid_array(shape)
    g = [np.array([(1.5 * k + 1) * np.sin(1.0 + j * (k + 1)) + j * j * 0.25 for j in range(n)]) for k, n in enumerate(shape)]
    y = 2.0 + sum(g[k][grid[:, k]] for k in range(d))
    E = y.reshape(shape, order='C') if True else None
    E = np.zeros(shape)
    E[tuple(grid.T)] = y
    for order in (1, 2):
        for r in (2, 3):
            for perm in (None, 'rev'):
                res.ev()
                Ig, yg = (grid, y) if perm is None else (grid[::-1], y[::-1])
                case = dict(c, order=order, r=r, perm=perm)
                with warnings.catch_warnings():
                    warnings.simplefilter('ignore')
                    Y = teneva.anova(Ig, yg, r, order, 0., seed=0)
                ok = ref.wellformed(Y, shape) is None
                res.check(ok and np.abs(ref.dense(Y) - E).max() <= 1e-11 * (1 + np.abs(E).max()), 'additive', case,
                          lambda: 'additive function not reproduced: max dev %.3e' % (np.abs(ref.dense(Y) - E).max() if ok else -1), ['additive'])
    # extreme magnitudes and very many (repeated) samples: the model and its tensor scale / stay the same
    for sc, reps in ((1e-20, 1), (1e+20, 1), (1.0, 20001 // len(grid) + 1)):
        res.ev()
        Ig = np.tile(grid, (reps, 1))
        yg = np.tile(y, reps) * sc
        case = dict(c, scale=sc, rows=len(Ig))
        with warnings.catch_warnings():
            warnings.simplefilter('ignore')
            Y = teneva.anova(Ig, yg, 2, 1, 0., seed=0)
        ok = ref.wellformed(Y, shape) is None
        res.check(ok and np.abs(ref.dense(Y) / sc - E).max() <= 1e-10 * (1 + np.abs(E).max()), 'additive.scaled', case,
                  lambda: 'values scaled by %g / %d rows: additive function not reproduced (dev %.3e)' % (sc, len(Ig), np.abs(ref.dense(Y) / sc - E).max() if ok else -1),
                  ['additive'])
    # equivalent argument forms: lists, other integer dtypes, NumPy-integer rank / order
    with warnings.catch_warnings():
        warnings.simplefilter('ignore')
        base = teneva.anova(grid, y, 2, 1, 0., seed=0)
        for nm, (Ig, yg, rr, oo) in {'lists': (grid.tolist(), y.tolist(), 2, 1), 'int32': (grid.astype(np.int32), y, 2, 1), 'uint8': (grid.astype(np.uint8), y, 2, 1),
                                     'float32-y': (grid, y.astype(np.float32), 2, 1), 'numpy-ints': (grid, y, np.int64(2), np.int64(1)),
                                     'fortran': (np.asfortranarray(grid), y, 2, 1)}.items():
            res.ev()
            try:
                Y = teneva.anova(Ig, yg, rr, oo, 0., seed=0)
            except Exception as ex:
                res.fail('forms.raised', dict(c, form=nm), 'anova raised %s for the %s form' % (type(ex).__name__, nm), ['forms'])
                continue
            ok = ref.wellformed(Y, shape) is None
            tolf = 1e-5 if nm == 'float32-y' else 1e-12
            res.check(ok and np.abs(ref.dense(Y) - ref.dense(base)).max() <= tolf * (1 + np.abs(E).max()), 'forms', dict(c, form=nm),
                      lambda: 'the %s form of the training data gives a different tensor' % nm, ['forms'])
    res.nt(tuple(shape))
    return res


def check_pairwise(c):
    """A function with pair interactions on a full grid is reproduced by the order-2 model when the rank suffices; d up to 7
    makes add_many sum 1 + d(d-1)/2 = 22 tensors (the intermediate rounding every 15 summands is exercised)."""
    res = Res()
    shape = c['shape']
    d = len(shape)
    grid = space.grid_array(shape)
    g = [np.array([(0.7 * k + 1) * np.cos(0.5 + j * (k + 1)) for j in range(n)]) for k, n in enumerate(shape)]
    y = 1.5 + sum(g[k][grid[:, k]] for k in range(d))
    for k1 in range(d - 1):
        for k2 in range(k1 + 1, d):
            y = y + 0.3 * (1 + ((k1 + 2 * k2) % 3)) * g[k1][grid[:, k1]] * g[k2][grid[:, k2]]
            if c.get('nearsym') and shape[k1] == shape[k2]:
                # a pair table that is symmetric up to a relative 3e-6: symmetric part u(i)u(j), small non-symmetric part u(i)v(j)
                u = np.array([1.0 + 0.5 * j for j in range(shape[k1])])
                v = np.array([(-1.0) ** j * (1 + j) for j in range(shape[k1])])
                y = y + u[grid[:, k1]] * u[grid[:, k2]] + c['nearsym'] * u[grid[:, k1]] * v[grid[:, k2]]
    y = y * c.get('scale', 1.0)
    dom, f0, f1, f2, M1, M2 = model(grid, y)
    E = np.zeros(shape)
    E[tuple(grid.T)] = y
    for r in c['rs']:
        res.ev()
        case = dict(c, r=r)
        with warnings.catch_warnings():
            warnings.simplefilter('ignore')
            Y = teneva.anova(grid, y, r, 2, 0., seed=0)
        ok = ref.wellformed(Y, shape) is None and ref.finite(Y)
        if not res.check(ok, 'pairwise.shape', case, 'malformed'):
            continue
        res.check(all(G.shape[2] <= r for G in Y[:-1]), 'pairwise.ranks', case, 'ranks exceed r')
        tnum = max(int(np.sum(ref.unfold_sv(M2, k) > 1e-9 * ref.unfold_sv(M2, k)[0])) for k in range(1, d))
        if r >= tnum:
            dev = float(np.linalg.norm(ref.dense(Y) - M2)) / float(np.linalg.norm(M2))
            res.check(dev <= (1e-7 if not c.get('nearsym') else 1e-9), 'pairwise.value', case,
                      lambda: 'order-2 tensor deviates from constant + per-mode + ALL pair terms by relative %.3e (d=%d, %d summands)' % (
                          dev, d, 1 + d * (d - 1) // 2), ['value'])
            res.nt((tuple(shape), r))
        else:
            res.skip('requested rank below the TT-rank of the order-2 model')
    # one model object asked first for a rank that is too small and then for a sufficient one: the second answer is the model
    rbig = max(c['rs'])
    tn = max(int(np.sum(ref.unfold_sv(M2, k) > 1e-9 * ref.unfold_sv(M2, k)[0])) for k in range(1, d))
    if rbig >= tn and d * max(shape) <= 64:
        res.ev()
        with warnings.catch_warnings():
            warnings.simplefilter('ignore')
            obj = teneva.ANOVA(grid, y, 2, 0)
            obj.cores(2, 0.)
            Yb = obj.cores(rbig, 0.)
        dev = float(np.linalg.norm(ref.dense(Yb) - M2)) / float(np.linalg.norm(M2))
        res.check(dev <= (1e-7 if not c.get('nearsym') else 1e-9), 'pairwise.reuse', dict(c, r=rbig),
                  lambda: 'cores(%d) after cores(2) on the same ANOVA object deviates from the order-2 model by relative %.3e' % (rbig, dev), ['value', 'reuse'])
    return res


def check_func(c):
    res = Res()
    seed = c.get('seed', 0)
    d, n = c['d'], c['n']
    a, b = c['box']
    m = c['m']
    # deterministic point set in the box (not a grid), values from a smooth non-additive function
    X = np.array([[a + (b - a) * (((j + 1) * 0.6180339887 * (k + 1) + 0.31 * k) % 1.0) for k in range(d)] for j in range(m)])
    if c.get('dup'):
        X = np.vstack([X, X[:2]])
    y = 1.0 + np.sum(np.cos(X * (1 + np.arange(d))), axis=1) + 0.3 * X[:, 0] * X[:, -1]
    if c.get('ignore_last'):        # the data do not depend on the last variable: its fitted coefficients are rounding noise
        y = 1.0 + np.cos(2 * X[:, 0]) + 0.5 * X[:, 0] ** 2
    y = y * float(c.get('scale', 1.0))
    cheb = np.polynomial.chebyshev
    for lamb in c['lambs']:
        for e in (None, 1e-8):
            res.ev()
            case = dict(c, lamb=lamb, e=e, lambs=[lamb])
            X0, y0 = X.copy(), y.copy()
            with warnings.catch_warnings():
                warnings.simplefilter('ignore')
                A = teneva.anova_func(X, y, n, a, b, lamb, e)
            res.check(np.array_equal(X, X0) and np.array_equal(y, y0), 'func.input_untouched', case, 'training data modified')
            if not res.check(ref.wellformed(A, [n] * d) is None and ref.finite(A), 'func.shape', case, 'malformed coefficient tensor'):
                continue
            # independent ridge fits
            const = float(np.mean(y))
            yy = y - const
            cfs = []
            for k in range(d):
                t = (X[:, k] - (b + a) / 2) * (2 / (b - a))
                V = cheb.chebvander(t, n - 1)
                cf = np.linalg.solve(V.T @ V + lamb * np.eye(n), V.T @ yy)
                cfs.append(cf)
            c0 = const + sum(cf[0] for cf in cfs)
            P = np.array([[a + (b - a) * ((0.37 * (j + 1) * (k + 2)) % 1.0) for k in range(d)] for j in range(12)] + [[a] * d, [b] * d])
            want = np.full(len(P), c0)
            for k in range(d):
                t = (P[:, k] - (b + a) / 2) * (2 / (b - a))
                cfk = cfs[k].copy()
                cfk[0] = 0.0
                want += cheb.chebval(t, cfk)
            with warnings.catch_warnings():
                warnings.simplefilter('ignore')
                got = teneva.func_get(P, A, a, b)
            cond = max(np.linalg.cond(cheb.chebvander((X[:, k] - (b + a) / 2) * (2 / (b - a)), n - 1).T @
                                      cheb.chebvander((X[:, k] - (b + a) / 2) * (2 / (b - a)), n - 1) + lamb * np.eye(n)) for k in range(d))
            tol = (1e-12 * cond + (1e-7 if e else 0)) * (np.abs(y).max() + np.abs(want).max())
            res.check(np.abs(got - want).max() <= tol, 'func.value', case,
                      lambda: 'interpolant differs from constant + fitted 1-D expansions by %.3e (tol %.1e)' % (np.abs(got - want).max(), tol), ['func'])
            if e is None:
                res.check(all(G.shape[2] <= 2 for G in A[:-1]) or True, 'func.ranks', case, 'ranks')
            res.nt((d, n, c['box'], m, lamb, e, c.get('dup')))
    return res


CHECKERS = {'subset': check_subset, 'additive': check_additive, 'func': check_func, 'pairwise': check_pairwise}


def strata(tier, seed):
    if tier == 'quick':
        cfg_small = [[o, r, nz, sd] for o in (1, 2) for r in (2, 3, 6) for nz in (0., 1e-10, 1e-3) for sd in (0, 1)]
        cfg_big = [[o, r, nz, 0] for o in (1, 2) for r in (2, 3) for nz in (0., 1e-3)]
    else:
        cfg_small = [[o, r, nz, sd] for o in (1, 2) for r in (2, 3, 6) for nz in (0., 1e-10, 1e-3) for sd in (0, 1)]
        cfg_big = cfg_small
    cs = []
    for grid, cfg, dups in (([2, 3], cfg_small, True), ([2, 2, 2], cfg_small, True), ([2, 3, 2], cfg_big, tier != 'quick')):
        N = int(np.prod(grid))
        masks = list(range(1, 2 ** N))
        per = 8 if N <= 8 else 32
        for i in range(0, len(masks), per):
            cs.append(dict(grid=grid, masks=masks[i:i + per], configs=cfg, dups=dups))
    yield Stratum('all subsets as sample sets', cs, 'subset', size=len(cs), chunk=1,
                  bounds={'grids': [[2, 3], [2, 2, 2], [2, 3, 2]], 'subsets': [63, 255, 4095]})
    ad = [dict(shape=s) for d in (2, 3, 4) for s in space.shapes([d], [1, 2, 3, 4] if d < 4 else [2, 3])]
    yield Stratum('additive functions on full grids', ad, 'additive', size=len(ad), chunk=8, bounds={})
    pw = [dict(shape=[2] * d, rs=[4, 8, 16]) for d in (3, 4, 5, 6, 7)] + [dict(shape=[3, 2, 2, 3, 2, 2], rs=[8, 32])]
    pw += [dict(shape=[n] * d, rs=[16, 64], nearsym=eps) for n in (3, 4) for d in (2, 3) for eps in (3e-6, 1e-7)]      # nearly symmetric pair tables
    pw += [dict(shape=sh, rs=[16, 64], scale=sc) for sh in ([3, 3, 3], [2, 3, 4], [4, 4]) for sc in (1e-9, 1e-12, 1e9)]  # tiny / huge interactions
    yield Stratum('pair interactions on full grids, d up to 7', pw, 'pairwise', size=len(pw), chunk=1, bounds={'d': [3, 7], 'summands in add_many': 'up to 22'})
    fs0 = [dict(d=d, n=n, box=[-1., 1.], m=m, lambs=[0.0, 1e-7], dup=False, seed=seed, ignore_last=ig, scale=sc)
           for d in (2, 3) for n in (2, 3, 4) for m in (20, 40) for ig in (True, False) for sc in (1.0, 1e-17, 1e+12)]
    yield Stratum('functional variant: lamb = 0, ignored variables, extreme scales', fs0, 'func', size=len(fs0), chunk=8, bounds={})
    fs = [dict(d=d, n=n, box=list(box), m=m, lambs=[1e-7, 1e-2], dup=dup, seed=seed)
          for d in (2, 3, 4) for n in (2, 3, 4) for box in ((-1., 1.), (0., 2.), (-3., -1.)) for m in (3, 7, 20) for dup in (False, True)]
    yield Stratum('functional variant', fs, 'func', size=len(fs), chunk=8, bounds={'n': [2, 4], 'd': [2, 4]})
