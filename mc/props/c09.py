"""C09 - public functions never modify their arguments or alias their results to them.

Mode L over the API surface: the registry is checked against the import list of
teneva/__init__.py (AST), so an exported function without an entry is reported; every
entry is driven in every documented argument combination x memory layout of every
array / core argument {C-contiguous, Fortran-contiguous, strided view of a larger buffer}."""
import ast
import contextlib
import io
import itertools
import os
import warnings

import numpy as np
import teneva

from mc import ref, space
from mc.engine import Res, Stratum, digest

ID = 'C09'
REGISTERED = True
LEVEL = 'exploration'
TECHNIQUE = ('exhaustive enumeration over the exported API (registry cross-checked against the package import list by AST) x '
             'documented argument combinations x memory layouts {C, Fortran, strided view} x rank profiles incl. rank 1; byte / '
             'shape / stride / identity snapshots of every argument before and after, numpy.shares_memory between every result '
             'array and every argument array, and write-after tests in both directions')
LEVEL_TEXT = ('every exported function is called in every listed argument combination with every array argument in each of three '
              'memory layouts; a mutation or an alias that only exists for one layout (a view instead of a copy after reshape / '
              'transpose, an overwrite flag handed to LAPACK) is exactly what one fixed call in a unit test cannot see')
LEVEL_NOTE = ('bounded: d in {2,3}, small shapes, ranks {1,2,3}; three layouts; undocumented service arguments '
              '(optima_tt_beam(to_orth=False), _to_item, check_phi) are not driven; getter needs numba (not installed) and is '
              'reported as uncovered')
RULE = ('cases = registry entry x layout x rank profile; each case runs all argument combinations of the entry. Non-trivial: a '
        'call that returned at least one array and had at least one array argument; distinct = (function, combination, layout, ranks).')
ASSUMPTIONS = ['documented exceptions (whitelist): inplace=True of orthogonalize_left/right, the info / cache dictionaries, '
               'grid_prep_opt(s) and core_stab below its threshold handing back their argument, copy of a number / None',
               'callables passed as arguments are pure',
               'core_dot_maxvol(ind=...) hands back the index vector it was given; an index vector is not a tensor']

LAYOUTS = ('C', 'F', 'S')


def lay(a, L):
    a = np.asarray(a)
    if L == 'C':
        return np.ascontiguousarray(a).copy()
    if L == 'F':
        return np.asfortranarray(a).copy(order='F') if a.ndim > 1 else a.copy()
    # strided view of a larger buffer
    big = np.full(tuple(2 * s + 1 for s in a.shape), -777, dtype=a.dtype)
    view = big[tuple(slice(1, 1 + 2 * s, 2) for s in a.shape)]
    view[...] = a
    return view


def ttl(Y, L):
    return [lay(G, L) for G in Y]


def arrays_in(x, path='', out=None, depth=0):
    """All ndarrays reachable from x (lists / tuples / dicts), with their paths."""
    if out is None:
        out = []
    if isinstance(x, np.ndarray):
        out.append((path, x))
    elif isinstance(x, (list, tuple)) and depth < 6:
        for k, v in enumerate(x):
            arrays_in(v, '%s[%d]' % (path, k), out, depth + 1)
    elif isinstance(x, dict) and depth < 6:
        for k, v in x.items():
            arrays_in(v, '%s[%r]' % (path, k), out, depth + 1)
    return out


def snap(x, depth=0):
    if isinstance(x, np.ndarray):
        return ('A', x.shape, x.strides, x.dtype.str, x.tobytes(), bool(x.flags.writeable))
    if isinstance(x, list) and depth < 6:
        return ('L', len(x), [id(v) for v in x], [snap(v, depth + 1) for v in x])
    if isinstance(x, tuple) and depth < 6:
        return ('T', [snap(v, depth + 1) for v in x])
    if isinstance(x, (int, float, str, bool, type(None))):
        return ('V', repr(x))
    return ('O', type(x).__name__)


# -------------------------------------------------------------------------------------------------
# registry: name -> function(L, rk) -> list of (label, args, kwargs, checked_arg_positions or None)

def _base(L, rk, shape=(3, 2, 3)):
    d = len(shape)
    r = [1] + [rk] * (d - 1) + [1]
    Y = ttl(space.tt(list(shape), r, 'gen', 0, tag=90), L)
    Y2 = ttl(space.tt(list(shape), [1] + [max(1, rk - 1)] * (d - 1) + [1], 'gen', 0, tag=91), L)
    return Y, Y2


def _grid(L, shape=(3, 2, 3)):
    return lay(space.grid_array(list(shape)), L)


def _dense(L, shape=(3, 2, 3)):
    return lay(ref.dense(space.tt(list(shape), [1, 2, 2, 1][:len(shape)] + [1], 'gen', 0, tag=92)), L)


def _f(I):
    I = np.asarray(I)
    return np.cos(I @ (1.0 + np.arange(I.shape[1]))) + 2.0


def registry():
    R = {}

    def reg(name, fn):
        R[name] = fn

    def simple(name, mk):
        reg(name, mk)

    # --- act_one ----------------------------------------------------------------------------------
    simple('copy', lambda L, rk: [('tt', [_base(L, rk)[0]], {}), ('array', [_dense(L)], {}), ('num', [2.5], {}), ('none', [None], {})])
    simple('get', lambda L, rk: [('one', [_base(L, rk)[0], lay(np.array([1, 0, 2]), L)], {}), ('list', [_base(L, rk)[0], [1, 1, 0]], {}),
                                 ('batch', [_base(L, rk)[0], _grid(L)], {})])
    simple('get_many', lambda L, rk: [('grid', [_base(L, rk)[0], _grid(L)], {}), ('lists', [_base(L, rk)[0], [[0, 1, 2], [2, 0, 0]]], {})])
    simple('get_and_grad', lambda L, rk: [('i', [_base(L, rk)[0], lay(np.array([2, 1, 0]), L)], {}), ('list', [_base(L, rk)[0], [0, 0, 1]], {})])
    simple('interface', lambda L, rk: [('%s-%s-%s-%s' % (p, i, nm, lt), [_base(L, rk)[0]],
                                        dict(P=(None if p == 0 else [[1.0, 0.5, 2.0][:n] for n in (3, 2, 3)]), i=(None if i == 0 else [1, 0, 2]),
                                             norm=nm, ltr=lt))
                                       for p in (0, 1) for i in (0, 1) for nm in (None, 'linalg', 'natural') for lt in (False, True)])
    simple('mean', lambda L, rk: [('uniform', [_base(L, rk)[0]], {}), ('weighted', [_base(L, rk)[0], [[0.5, 0.25, 0.25], [0.5, 0.5], [1.0, 0.0, 0.0]]], {})])
    simple('norm', lambda L, rk: [('plain', [_base(L, rk)[0]], {}), ('stab', [_base(L, rk)[0]], dict(use_stab=True))])
    simple('sum', lambda L, rk: [('', [_base(L, rk)[0]], {})])
    simple('tt_to_qtt', lambda L, rk: [('e%g-r%g' % (e, r), [ttl(space.tt([4, 4], [1, rk, 1], 'gen', 0), L)], dict(e=e, r=r)) for e in (1e-12, 1e-2) for r in (1, 100)] +
           [('q1', [ttl(space.tt([2, 2, 2], [1, rk, rk, 1], 'gen', 0), L)], {}), ('q3', [ttl(space.tt([8, 8], [1, rk, 1], 'gen', 0), L)], {})])
    simple('qtt_to_tt', lambda L, rk: [('q2', [ttl(space.tt([2, 2, 2, 2], [1, rk, 2, rk, 1], 'gen', 0), L), 2], {}),
                                       ('q1', [ttl(space.tt([2, 2, 2], [1, rk, rk, 1], 'gen', 0), L), 1], {}),
                                       ('q3', [ttl(space.tt([2, 2, 2], [1, rk, rk, 1], 'gen', 0), L), 3], {})])
    # --- act_two / act_many ----------------------------------------------------------------------------
    for nm in ('add', 'sub', 'mul'):
        simple(nm, lambda L, rk: [('tt-tt', list(_base(L, rk)), {}), ('tt-num', [_base(L, rk)[0], 2.0], {}), ('num-tt', [-1.5, _base(L, rk)[0]], {}),
                                  ('tt-0', [_base(L, rk)[0], 0], {}), ('same', [_base(L, rk)[0]] * 2, {})])
    simple('accuracy', lambda L, rk: [('tt', list(_base(L, rk)), {}), ('arrays', [_dense(L), _dense(L) * 1.5], {})])
    simple('mul_scalar', lambda L, rk: [('plain', list(_base(L, rk)), {}), ('stab', list(_base(L, rk)), dict(use_stab=True))])
    simple('outer', lambda L, rk: [('', list(_base(L, rk)), {}), ('same', [_base(L, rk)[0]] * 2, {})])
    simple('add_many', lambda L, rk: [('f%d' % f, [[_base(L, rk)[0], _base(L, rk)[1], 2.0, _base(L, rk)[0]]], dict(e=1e-8, r=r, trunc_freq=f))
                                      for f in (1, 15) for r in (2, 1e12)] + [('single', [[_base(L, rk)[0]]], {})])
    simple('outer_many', lambda L, rk: [('', [[_base(L, rk)[0], _base(L, rk)[1]]], {}), ('single', [[_base(L, rk)[0]]], {}),
                                        ('three', [[_base(L, rk)[0], _base(L, rk)[1], _base(L, rk)[0]]], {})])
    # --- props / data ----------------------------------------------------------------------------------------
    for nm in ('erank', 'ranks', 'shape', 'size'):
        simple(nm, lambda L, rk: [('', [_base(L, rk)[0]], {})])
    simple('show', lambda L, rk: [('', [_base(L, rk)[0]], {})])
    simple('accuracy_on_data', lambda L, rk: [('plain', [_base(L, rk)[0], _grid(L), lay(_f(space.grid_array([3, 2, 3])), L)], {}),
                                              ('trunc', [_base(L, rk)[0], _grid(L), lay(_f(space.grid_array([3, 2, 3])), L)], dict(e_trunc=1e-3))])
    simple('cache_to_data', lambda L, rk: [('', [{(0, 1): 2.0, (1, 1): -1.0}], {})])
    # --- transformation -------------------------------------------------------------------------------------------
    simple('full', lambda L, rk: [('', [_base(L, rk)[0]], {}), ('d1', [ttl([space.core('gen', 1, 3, 1, 0, 0)], L)], {}), ('d2', [ttl(space.tt([1, 3], [1, rk, 1], 'gen', 0), L)], {}),
                                  ('n1', [ttl(space.tt([3, 1], [1, rk, 1], 'gen', 0), L)], {})])
    simple('full_matrix', lambda L, rk: [('', [ttl(space.tt([4, 4], [1, rk, 1], 'gen', 0), L)], {})])
    simple('orthogonalize', lambda L, rk: [('k%s-%s' % (k, st), [_base(L, rk)[0], k], dict(use_stab=st)) for k in (None, 0, 1, 2) for st in (False, True)])
    simple('orthogonalize_left', lambda L, rk: [('i%d' % i, [_base(L, rk)[0], i], {}) for i in (0, 1)])
    simple('orthogonalize_right', lambda L, rk: [('i%d' % i, [_base(L, rk)[0], i], {}) for i in (1, 2)])
    simple('truncate', lambda L, rk: [('%s%s%s-e%g-r%g' % (o, st, eg, e, r), [teneva.add(*_base(L, rk)) if L == 'C' else ttl(teneva.add(*_base('C', rk)), L)],
                                       dict(e=e, r=r, orth=o, use_stab=st, is_eigh=eg))
                                      for o in (True, False) for st in (False, True) for eg in (True, False) for e in (1e-10, 0.5) for r in (1, 1e12)])
    # --- svd -------------------------------------------------------------------------------------------------------------
    simple('svd', lambda L, rk: [('e%g-r%g' % (e, r), [_dense(L)], dict(e=e, r=r)) for e in (1e-10, 0.5) for r in (1, 1e12)] +
           [('d2', [lay(np.arange(6.0).reshape(2, 3), L)], {}), ('d1', [lay(np.array([1., 2., 0.5, -1.]), L)], {}),
            ('d1-cap', [lay(np.array([1., 2., 0.5]), L)], dict(r=1))])
    simple('svd_matrix', lambda L, rk: [('', [lay(ref.dense(space.tt([4, 4], [1, 3, 1], 'gen', 0)), L)], dict(e=1e-10)),
                                        ('2x2', [lay(np.array([[1., 2.], [3., 5.]]), L)], {}), ('8x8', [lay(ref.dense(space.tt([8, 8], [1, 3, 1], 'gen', 0)), L)], {})])
    simple('matrix_svd', lambda L, rk: [('%dx%d' % s, [lay(space.core('gen', 1, s[0], s[1], 0, 0)[0], L)], dict(e=e)) for s in ((3, 4), (4, 3), (2, 2)) for e in (1e-10, 0.3)])
    simple('matrix_skeleton', lambda L, rk: [('%dx%d-%s-%s' % (s + (g, rel)), [lay(space.core('gen', 1, s[0], s[1], 0, 0)[0], L)], dict(give_to=g, rel=rel, e=0.1))
                                             for s in ((3, 4), (4, 3)) for g in 'mlr' for rel in (False, True)] +
           [('herm', [lay(np.array([[2., 1.], [1., 3.]]), L)], dict(hermitian=True))])

    def _svd_inc(L, rk):
        shape = [3, 3, 3]
        T = ref.dense(space.tt(shape, [1, 2, 2, 1], 'gen', 0, tag=93))
        I, idx, im = teneva.sample_tt(shape, 2, seed=0)
        return [('', [lay(I, L), lay(T[tuple(I.T)], L), lay(idx, L), lay(im, L)], dict(e=1e-10, r=3))]
    simple('svd_incomplete', _svd_inc)
    # --- core -------------------------------------------------------------------------------------------------------------------
    G = lambda L, rk: lay(space.core('gen', 2, 3, rk, 1, 0), L)
    simple('core_dot', lambda L, rk: [('ltr', [G(L, rk), lay(space.core('gen', 1, rk, 2, 0, 0)[0], L)], {}),
                                      ('rtl', [G(L, rk), lay(space.core('gen', 1, 3, 2, 0, 0)[0], L)], dict(ltr=False)),
                                      ('num', [lay(space.core('gen', 2, 3, 1, 1, 0), L), 2.0], {})])
    simple('core_dot_inv', lambda L, rk: [('ltr', [G(L, rk), lay(space.core('gen', 1, rk, rk, 0, 0)[0] + 2 * np.eye(rk), L)], {}),
                                          ('rtl', [G(L, rk), lay(space.core('gen', 1, 2, 2, 0, 0)[0] + 2 * np.eye(2), L)], dict(ltr=False))])
    simple('core_dot_maxvol', lambda L, rk: [('ltr', [G(L, rk), lay(space.core('gen', 1, rk, 2, 0, 0)[0], L)], {}),
                                             ('ind', [G(L, rk), lay(space.core('gen', 1, rk, 2, 0, 0)[0], L)], dict(ind=lay(np.array([0, 1]), L))),
                                             ('rtl', [G(L, rk), lay(space.core('gen', 1, 2, 2, 0, 0)[0], L)], dict(ltr=False))])
    simple('core_qr_rand', lambda L, rk: [('ltr', [G(L, rk), 2], dict(seed=0)), ('rtl', [G(L, rk), 2], dict(ltr=False, seed=0))])
    simple('core_qtt_to_tt', lambda L, rk: [('two', [ttl([space.core('gen', 2, 2, rk, 0, 0), space.core('gen', rk, 2, 3, 1, 0)], L)], {}),
                                            ('one', [ttl([space.core('gen', 2, 2, rk, 0, 0)], L)], {}),
                                            ('three', [ttl([space.core('gen', 1, 2, rk, 0, 0), space.core('gen', rk, 2, 2, 1, 0), space.core('gen', 2, 2, 1, 2, 0)], L)], {})])
    simple('core_stab', lambda L, rk: [('scaled', [G(L, rk) * 8.0], {}), ('p0', [G(L, rk), 3], {})] +
           [('max%g' % mx, [G(L, rk) / np.abs(G('C', rk)).max() * mx], {}) for mx in (1.0, 1.37, 1.999, 0.75, 2.0, 3.0)])      # below-threshold pass-through is whitelisted, not driven
    simple('core_tt_to_qtt', lambda L, rk: [('e%g' % e, [lay(space.core('gen', 2, 4, rk, 0, 0), L)], dict(e=e, r=r)) for e in (0., 1e-2) for r in (1, 1e12)])
    # --- cross / als / anova ------------------------------------------------------------------------------------------------------------------
    def _cross(L, rk):
        out = []
        for cache in (None, 'd'):
            for vld in (False, True):
                kw = dict(nswp=2, info={}, cache=({} if cache else None), dr_min=1, dr_max=1)
                if vld:
                    kw.update(I_vld=_grid(L), y_vld=lay(_f(space.grid_array([3, 2, 3])), L), e_vld=1e-12)
                out.append(('c%s-v%s' % (cache, vld), [_f, _base(L, rk)[0]], kw))
        out.append(('m', [_f, _base(L, rk)[0]], dict(m=30, info={})))
        out.append(('cb', [_f, _base(L, rk)[0]], dict(nswp=2, info={}, cb=lambda Y, info, opts: None)))
        return out
    simple('cross', _cross)
    simple('cross_act', lambda L, rk: [('', [lambda X: X[:, 0] * X[:, 1] + 1.0, [_base(L, rk)[0], _base(L, rk)[1]], _base(L, 1)[0]],
                                        dict(e=1e-6, nswp=2, dr=2, seed=0))])

    def _als(L, rk):
        I = _grid(L)
        y = lay(_f(space.grid_array([3, 2, 3])), L)
        out = [('const', [I, y, _base(L, rk)[0]], dict(nswp=2, info={})),
               ('w', [I, y, _base(L, rk)[0]], dict(nswp=2, info={}, w=lay(1.0 + np.arange(len(y)) % 3, L), lamb=0.1)),
               ('lamb-none', [I, y, _base(L, rk)[0]], dict(nswp=2, info={}, lamb=None)),
               ('n1-lamb-none', [lay(space.grid_array([3, 1, 2]), L), lay(_f(space.grid_array([3, 1, 2])), L), ttl(space.tt([3, 1, 2], [1, rk, rk, 1], 'gen', 0), L)],
                dict(nswp=2, info={}, lamb=None)),
               ('n1', [lay(space.grid_array([1, 3, 1]), L), lay(_f(space.grid_array([1, 3, 1])), L), ttl(space.tt([1, 3, 1], [1, rk, rk, 1], 'gen', 0), L)],
                dict(nswp=2, info={})),
               ('one-slice-skip', [lay(space.grid_array([3, 2, 3])[:3], L), lay(_f(space.grid_array([3, 2, 3])[:3]), L), _base(L, rk)[0]],
                dict(nswp=1, info={}, lamb=None, allow_skip_cores=True)),
               ('lamb-none-w', [I, y, _base(L, rk)[0]], dict(nswp=2, info={}, lamb=None, w=lay(1.0 + np.arange(len(y)) % 3, L))),
               ('vld', [I, y, _base(L, rk)[0]], dict(nswp=2, info={}, I_vld=_grid(L), y_vld=lay(_f(space.grid_array([3, 2, 3])), L), e_vld=1e-12)),
               ('adaptive', [I, y, _base(L, rk)[0]], dict(nswp=2, info={}, r=3)),
               ('adaptive-stab', [I, y, _base(L, rk)[0]], dict(nswp=2, info={}, r=3, use_stab=True)),
               ('skip', [lay(space.grid_array([3, 2, 3])[:5], L), lay(_f(space.grid_array([3, 2, 3])[:5]), L), _base(L, rk)[0]],
                dict(nswp=1, info={}, allow_skip_cores=True)),
               ('cb', [I, y, _base(L, rk)[0]], dict(nswp=2, info={}, cb=lambda Y, info, opts: None))]
        return out
    simple('als', _als)

    def _alsf(L, rk):
        X = lay(teneva.ind_to_poi(space.grid_array([3, 3, 3]), -1., 1., 3, 'cheb') * 0.9, L)
        y = lay(_f(space.grid_array([3, 3, 3])), L)
        A0 = ttl(space.tt([3, 3, 3], [1, rk, rk, 1], 'gen', 0, tag=94), L)
        return [('cheb', [X, y, A0, -1., 1.], dict(nswp=2, info={}, thr_pow=0.)),
                ('lamb-none', [X, y, A0, -1., 1.], dict(nswp=2, info={}, thr_pow=0., lamb=None)),
                ('fh', [X, y, A0], dict(nswp=1, info={}, fh=lambda x: teneva.func_basis(np.asarray(x, dtype=float), 3))),
                ('vld', [X, y, A0, -1., 1.], dict(nswp=2, info={}, X_vld=lay(np.asarray(X)[::2], L), y_vld=lay(np.asarray(y)[::2], L), e_vld=1e-12)),
                ('prune', [X, y, A0, -1., 1.], dict(nswp=2, info={}, thr_pow=0.5))]
    simple('als_func', _alsf)
    simple('anova', lambda L, rk: [('o%d' % o, [_grid(L), lay(_f(space.grid_array([3, 2, 3])), L)], dict(r=max(2, rk), order=o, noise=1e-3, seed=0)) for o in (1, 2)])
    simple('ANOVA', lambda L, rk: [('o%d' % o, [_grid(L), lay(_f(space.grid_array([3, 2, 3])), L)], dict(order=o, seed=0)) for o in (1, 2)])
    simple('anova_func', lambda L, rk: [('e%s' % e, [lay(teneva.ind_to_poi(space.grid_array([3, 3]), -1., 1., 3, 'cheb') * 0.9, L),
                                                       lay(_f(space.grid_array([3, 3])), L), 3], dict(e=e)) for e in (None, 1e-8)])
    simple('ANOVA_func', lambda L, rk: [('', [lay(teneva.ind_to_poi(space.grid_array([3, 3]), -1., 1., 3, 'cheb') * 0.9, L),
                                              lay(_f(space.grid_array([3, 3])), L), 3], {})])
    # --- func ---------------------------------------------------------------------------------------------------------------------------
    X3 = lambda L: lay(np.array([[0.1, -0.5, 0.9], [-1., 1., 0.], [2., 0., 0.]]), L)
    simple('func_basis', lambda L, rk: [('', [X3(L)], dict(m=4))])
    simple('func_diff_matrix', lambda L, rk: [('m%d-%s' % (m, k), [-1., 2., 5], dict(m=m, kind=k)) for m in (1, 2) for k in ('cheb', 'sin')])
    simple('func_diff_matrix_apply', lambda L, rk: [('sin', [_base(L, rk)[0], lay(np.diag([1., 2., 3.]), L)], dict(kind='sin'))])
    simple('func_get', lambda L, rk: [('ab', [X3(L), _base(L, rk)[0], -1., 1.], {}), ('noab', [X3(L), _base(L, rk)[0]], {}),
                                      ('one', [lay(np.array([0.1, 0.2, 0.3]), L), _base(L, rk)[0], lay(np.array([-1., -1., -1.]), L), lay(np.array([1., 1., 1.]), L)], {}),
                                      ('funcs', [X3(L), _base(L, rk)[0]], dict(funcs=[lambda x: teneva.func_basis(x, 3)] * 3))])
    simple('copy', lambda L, rk: [('tt', [_base(L, rk)[0]], {}), ('array', [_dense(L)], {}), ('num', [2.5], {}), ('none', [None], {}),
                                  ('tt1', [ttl([space.core('gen', 1, 3, 1, 0, 0)], L)], {})])
    simple('func_gets', lambda L, rk: [('m%s-%s' % (m, k), [_base(L, rk)[0]], dict(m=m, kind=k)) for m in (None, 4, [2, 3, 4]) for k in ('cheb', 'sin')])
    simple('func_int', lambda L, rk: [(k, [_base(L, rk)[0]], dict(kind=k)) for k in ('cheb', 'sin')])
    simple('func_int_general', lambda L, rk: [('x1d', [ttl(space.tt([3, 3, 3], [1, rk, rk, 1], 'gen', 0), L), lay(np.array([-0.9, 0.1, 0.8]), L),
                                                      lambda x: teneva.func_basis(np.asarray(x, dtype=float), 3)], {}),
                                              ('x2d', [ttl(space.tt([3, 3], [1, rk, 1], 'gen', 0), L), lay(np.array([[-0.9, 0.1, 0.8], [-0.5, 0., 0.5]]), L),
                                                       lambda x: teneva.func_basis(np.asarray(x, dtype=float), 3)], {})])
    simple('func_sum', lambda L, rk: [(k, [_base(L, rk)[0], -1., 2.], dict(kind=k)) for k in ('cheb', 'sin')])
    simple('func_get_full', lambda L, rk: [('', [X3(L), _dense(L), -1., 1.], {})])
    simple('func_gets_full', lambda L, rk: [('m%s' % m, [_dense(L), -1., 1.], dict(m=m)) for m in (None, 4)])
    simple('func_int_full', lambda L, rk: [('', [_dense(L)], {}), ('d1', [lay(np.array([1., 2., 0.5, -1.]), L)], {})])
    simple('func_sum_full', lambda L, rk: [('', [_dense(L), -2., 2.], {})])
    # --- grid / stat -------------------------------------------------------------------------------------------------------------------------
    simple('grid_flat', lambda L, rk: [('', [[2, 3]], {}), ('arr', [lay(np.array([2, 3]), L)], {})])
    simple('grid_prep_opt', lambda L, rk: [('reps', [lay(np.array([1., 2.]), L)], dict(reps=2)), ('scalar', [1.5, 3], {}), ('list', [[1, 2, 3]], dict(kind=int))])
    simple('grid_prep_opts', lambda L, rk: [('', [lay(np.array([0., 1.]), L), 2.0, [3, 4]], {}), ('reps', [[0., 1.], [2., 3.], 5], dict(reps=3))])
    simple('ind_qtt_to_tt', lambda L, rk: [('', [lay(np.array([[0, 1, 1, 0], [1, 1, 0, 0]]), L), 2], {}), ('one', [[0, 1, 1, 0], 2], {})])
    simple('ind_tt_to_qtt', lambda L, rk: [('', [lay(np.array([[0, 3], [2, 1]]), L), 4], {}), ('one', [[1, 2], 4], {})])
    for nm in ('ind_to_poi',):
        simple(nm, lambda L, rk: [(k, [_grid(L), lay(np.array([-1., 0., 2.]), L), lay(np.array([1., 3., 5.]), L), lay(np.array([3, 2, 3]), L)], dict(kind=k))
                                  for k in ('uni', 'cheb')] + [('scalar', [_grid(L), -1., 1., 3], {})] +
               [('single-' + k, [lay(np.array([1, 0, 2]), L), lay(np.array([-1., 0., 2.]), L), lay(np.array([1., 3., 5.]), L), lay(np.array([3, 2, 3]), L)], dict(kind=k))
                for k in ('uni', 'cheb')] + [('single-list', [[1, 0, 2], [-1., 0., 2.], [1., 3., 5.], [3, 2, 3]], {})])
    Xp = lambda L: lay(np.array([[0.1, 0.5, 2.5], [-3., 9., 4.], [1., 3., 5.]]), L)
    simple('poi_to_ind', lambda L, rk: [(k, [Xp(L), lay(np.array([-1., 0., 2.]), L), lay(np.array([1., 3., 5.]), L), lay(np.array([3, 2, 3]), L)], dict(kind=k))
                                        for k in ('uni', 'cheb')] + [('scalar', [Xp(L), -1., 5., 4], {})] +
           [('single-' + k, [lay(np.array([0.1, 0.5, 2.5]), L), lay(np.array([-1., 0., 2.]), L), lay(np.array([1., 3., 5.]), L), lay(np.array([3, 2, 3]), L)], dict(kind=k))
            for k in ('uni', 'cheb')] + [('single-floatn', [lay(np.array([0.1, 0.5, 2.5]), L), -1., 5., lay(np.array([3., 2., 3.]), L)], {})])
    simple('poi_scale', lambda L, rk: [(str(k), [Xp(L), lay(np.array([-1., 0., 2.]), L), lay(np.array([1., 3., 5.]), L)], dict(kind=k))
                                       for k in ('uni', 'cheb', [2., 3.])] +
           [('single-' + str(k), [lay(np.array([0.1, 0.5, 2.5]), L), lay(np.array([-1., 0., 2.]), L), lay(np.array([1., 3., 5.]), L)], dict(kind=k)) for k in ('uni', 'cheb')])
    simple('cdf_confidence', lambda L, rk: [('', [lay(np.array([0.1, 0.5, 0.9]), L)], {})])
    simple('cdf_getter', lambda L, rk: [('', [lay(np.array([3., 1., 2., 2.]), L)], {})])
    # --- maxvol / optima --------------------------------------------------------------------------------------------------------------------------
    A53 = lambda L: lay(space.core('gen', 1, 6, 3, 0, 0, 95)[0], L)
    simple('maxvol', lambda L, rk: [('', [A53(L)], {}), ('k0', [A53(L)], dict(k=0))])
    simple('maxvol_rect', lambda L, rk: [('%d-%s' % (a, b), [A53(L)], dict(dr_min=a, dr_max=b)) for a, b in ((0, None), (1, 2), (0, 0), (3, 3))])
    simple('optima_tt', lambda L, rk: [('k%d' % k, [_base(L, rk)[0]], dict(k=k)) for k in (1, 5, 100)])
    simple('optima_tt_max', lambda L, rk: [('k%d' % k, [_base(L, rk)[0]], dict(k=k)) for k in (1, 100)])
    simple('optima_tt_beam', lambda L, rk: [('%s-%s' % (lr, ra), [_base(L, rk)[0]], dict(k=3, l2r=lr, ret_all=ra)) for lr in (True, False) for ra in (False, True)])
    simple('optima_tt_maxvol', lambda L, rk: [(h, [_base(L, rk)[0]], dict(k=2, how=h)) for h in ('smart', 'l2r', 'r2l', 'both')])
    simple('optima_qtt', lambda L, rk: [('', [ttl(space.tt([4, 4], [1, rk, 1], 'gen', 0), L)], dict(k=5))])
    simple('optima_func_tt_beam', lambda L, rk: [('k%d-%s' % (k, ra), [_base(L, rk)[0]], dict(k=k, ret_all=ra)) for k in (1, 4) for ra in (False, True)])
    # --- sample ------------------------------------------------------------------------------------------------------------------------------------
    Ypos = lambda L, rk: ttl(space.tt([3, 2, 3], [1, rk, rk, 1], 'genpos', 0), L)
    simple('sample', lambda L, rk: [('m%d' % m, [Ypos(L, rk), m], dict(seed=0)) for m in (1, 4, 300)])      # 300 draws: any change of the distribution shows in the sample
    simple('sample_square', lambda L, rk: [('u%s' % u, [_base(L, rk)[0], 3], dict(unique=u, seed=0)) for u in (True, False)] + [('m300', [_base(L, rk)[0], 300], dict(unique=False, seed=0))])
    simple('sample_lhs', lambda L, rk: [('', [lay(np.array([3, 2, 3]), L), 5], dict(seed=0)), ('list', [[3, 2], 4], dict(seed=1))])
    simple('sample_rand', lambda L, rk: [('', [lay(np.array([3, 2, 3]), L), 5], dict(seed=0))])
    simple('sample_rand_poi', lambda L, rk: [('', [lay(np.array([-1., 0.]), L), lay(np.array([1., 2.]), L), 4], dict(seed=0))])
    simple('sample_tt', lambda L, rk: [('', [[3, 3, 3], 2], dict(seed=0)), ('arr', [lay(np.array([3, 4]), L), 3], dict(seed=0))])
    simple('sample_func', lambda L, rk: [('', [ttl(space.tt([3, 3], [1, rk, 1], 'gen', 0), L)], dict(seed=0))])
    # --- constructors -----------------------------------------------------------------------------------------------------------------------------------
    simple('const', lambda L, rk: [('', [lay(np.array([3, 2, 3]), L), 2.0], {}),
                                   ('zeros', [[3, 2, 3], 2.0, lay(np.array([[0, 1, 2], [1, 1, 1]]), L), lay(np.array([0, 1, 1]), L)], {})])
    simple('delta', lambda L, rk: [('', [lay(np.array([3, 2, 3]), L), lay(np.array([1, 0, 2]), L), 2.0], {})])
    simple('poly', lambda L, rk: [('', [lay(np.array([3, 2, 3]), L)], dict(shift=lay(np.array([0., 1., 2.]), L), power=2, scale=0.5)), ('scalar', [[3, 2]], dict(shift=1.))])
    for nm in ('rand', 'rand_norm', 'rand_stab'):
        simple(nm, lambda L, rk: [('scalar', [lay(np.array([3, 2, 3]), L), rk], dict(seed=0)), ('prof', [[3, 2, 3], lay(np.array([1, 2, rk, 1]), L)], dict(seed=0))])
    simple('rand_custom', lambda L, rk: [('', [lay(np.array([3, 2, 3]), L), rk, lambda sz: np.arange(sz) * 0.5], {})])
    simple('vector_delta', lambda L, rk: [('', [3, -2, 1.5], {})])
    simple('matrix_delta', lambda L, rk: [('', [2, 1, -1, 2.0], {})])
    # documented rejections: the arguments must be untouched when the call raises (clause mutation.on_error)
    inv = {
        'orthogonalize': lambda L, rk: [('bad-k', [_base(L, rk)[0], 3], {}), ('bad-k-stab', [_base(L, rk)[0], -1], dict(use_stab=True))],
        'orthogonalize_left': lambda L, rk: [('bad-i', [_base(L, rk)[0], 2], {}), ('bad-i-inplace', [_base(L, rk)[0], 2], dict(inplace=True))],
        'orthogonalize_right': lambda L, rk: [('bad-i', [_base(L, rk)[0], 0], {}), ('bad-i-inplace', [_base(L, rk)[0], 0], dict(inplace=True))],
        'maxvol': lambda L, rk: [('wide', [lay(space.core('gen', 1, 3, 4, 0, 0)[0], L)], {})],
        'maxvol_rect': lambda L, rk: [('bad-dr', [lay(space.core('gen', 1, 6, 3, 0, 0)[0], L)], dict(dr_min=3, dr_max=1))],
        'cross': lambda L, rk: [('no-criteria', [_f, _base(L, rk)[0]], dict(info={})), ('no-vld', [_f, _base(L, rk)[0]], dict(info={}, e_vld=1e-3))],
        'als': lambda L, rk: [('missing-slice', [lay(space.grid_array([3, 2, 3])[:5], L), lay(_f(space.grid_array([3, 2, 3])[:5]), L), _base(L, rk)[0]], dict(nswp=1, info={}))],
        'const': lambda L, rk: [('conflict', [[3, 2, 3], 2.0, lay(np.array([[0, 1, 2], [1, 1, 1]]), L), lay(np.array([1, 1, 1]), L)], {})],
        'tt_to_qtt': lambda L, rk: [('n3', [ttl(space.tt([3, 3], [1, rk, 1], 'gen', 0), L)], {})],
        'ind_tt_to_qtt': lambda L, rk: [('n3', [lay(np.array([[0, 2], [1, 1]]), L), 3], {})],
        'optima_qtt': lambda L, rk: [('n3', [ttl(space.tt([3, 3], [1, rk, 1], 'gen', 0), L)], {}), ('unequal', [ttl(space.tt([2, 4], [1, rk, 1], 'gen', 0), L)], {})],
        'func_sum_full': lambda L, rk: [('asym', [_dense(L), -1., 2.], {})],
        'grid_prep_opts': lambda L, rk: [('lengths', [lay(np.array([0., 1.]), L), lay(np.array([1., 2., 3.]), L), [3, 4]], {})],
        'sample_square': lambda L, rk: [('too-many', [ttl(space.tt([2, 2], [1, 1, 1], 'gen', 0), L), 5], dict(unique=True, seed=0, m_fact=2, max_rep=1))],
        'vector_delta': lambda L, rk: [('range', [3, 8, 1.0], {})],
        'poi_scale': lambda L, rk: [('kind', [lay(np.array([[0.1, 0.5, 2.5]]), L), -1., 1., 'nope'], {})],
        'func_int_general': lambda L, rk: [('bad-basis', [ttl(space.tt([3, 3], [1, rk, 1], 'gen', 0), L), lay(np.array([-0.9, 0.1, 0.8]), L),
                                                         lambda x: (_ for _ in ()).throw(ValueError('basis failed'))], {})],
    }
    for nm, mk in inv.items():
        old = R[nm]
        R[nm] = (lambda L, rk, old=old, mk=mk: old(L, rk) + [('INVALID-' + lb, a, k) for lb, a, k in mk(L, rk)])

    # one-core tensors: every combination whose only array-valued positional argument is a TT-tensor is also driven with a tensor of
    # dimension one (sweeps over bonds are then empty: "every core is re-assigned in the loop" no longer copies anything); calls that do
    # not accept it raise and are counted as skipped
    def is_tt(x):
        return isinstance(x, list) and len(x) >= 2 and all(isinstance(G, np.ndarray) and G.ndim == 3 for G in x)

    def with_d1(old):
        def mk(L, rk):
            base = old(L, rk)
            extra, seen = [], set()
            for lb, a, k in base:
                if lb.startswith('INVALID-') or not a or not is_tt(a[0]) or any(isinstance(x, (list, tuple, np.ndarray)) for x in a[1:]):
                    continue
                key = (repr(sorted((kk, repr(vv)) for kk, vv in k.items() if not isinstance(vv, (np.ndarray, list, dict)))), len(a))
                if key in seen or any(isinstance(vv, (np.ndarray, list)) for vv in k.values()):
                    continue
                seen.add(key)
                extra.append(('d1:' + lb, [ttl([space.core('gen', 1, 4, 1, 0, 0, 93)], L)] + list(a[1:]), dict(k)))
            return base + extra
        return mk
    for nm in list(R):
        R[nm] = with_d1(R[nm])
    return R


NOT_DRIVEN = {'getter': 'requires the optional package numba, which is not installed in this image (raises ValueError before touching its argument)'}


def exported():
    src = open(os.path.join(os.path.dirname(teneva.__file__), '__init__.py')).read()
    names = []
    for node in ast.walk(ast.parse(src)):
        if isinstance(node, ast.ImportFrom):
            for a in node.names:
                nm = a.asname or a.name
                if not nm.startswith('_'):
                    names.append(nm)
    return sorted(set(names))


def check_entry(c):
    res = Res()
    name, L, rk = c['fn'], c['layout'], c['rank']
    fn = getattr(teneva, name)
    with warnings.catch_warnings():
        warnings.simplefilter('ignore')
        ncomb = len(registry()[name](L, rk))
    for ci in range(ncomb):
        with warnings.catch_warnings():
            warnings.simplefilter('ignore')
            label, args, kwargs = registry()[name](L, rk)[ci]      # fresh argument objects for every combination
        res.ev()
        case = dict(fn=name, layout=L, rank=rk, combo=label)
        tags = ['fn=' + name, 'layout=' + L]
        watched = {'args': args, 'kwargs': {k: v for k, v in kwargs.items() if k not in ('info', 'cache')}}
        before = snap(args), snap([v for k, v in sorted(watched['kwargs'].items())])
        in_arrays = arrays_in(args, 'args') + arrays_in(watched['kwargs'], 'kwargs')
        try:
            with warnings.catch_warnings(), contextlib.redirect_stdout(io.StringIO()):
                warnings.simplefilter('ignore')
                out = fn(*args, **kwargs)
        except Exception as ex:
            # a call that cannot run proves nothing about mutation; it is another property's business (C11/C12/...) unless it
            # already changed its arguments
            after = snap(args), snap([v for k, v in sorted(watched['kwargs'].items())])
            res.check(before == after, 'mutation.on_error', case, '%s raised %s after modifying an argument' % (name, type(ex).__name__), tags)
            if label.startswith('INVALID-'):
                res.check(isinstance(ex, ValueError) or name == 'func_int_general', 'reject.type', case,
                          lambda: 'documented rejection raised %s instead of ValueError' % type(ex).__name__, tags)
                res.nt((name, label, L, rk))
            else:
                res.skip('call raised %s (%s %s)' % (type(ex).__name__, name, label))
            continue
        if label.startswith('INVALID-'):
            res.fail('reject.accepted', case, '%s accepted an argument combination it documents as invalid' % name, tags)
            continue
        if name in ('ANOVA', 'ANOVA_func'):
            obj = out
            with warnings.catch_warnings():
                warnings.simplefilter('ignore')
                out = [obj.cores(2, 1e-3) if name == 'ANOVA' else obj.cores(1e-8), obj(np.asarray(args[0])[:2]) if name == 'ANOVA' else obj.coeffs]
        after = snap(args), snap([v for k, v in sorted(watched['kwargs'].items())])
        res.check(before == after, 'mutation', case,
                  lambda: '%s(%s) changed an argument (contents, shape, strides or element list)' % (name, label), tags + ['mutation'])
        out_arrays = arrays_in(out, 'result')
        if name == 'core_dot_maxvol' and kwargs.get('ind') is not None:
            out_arrays = [(p_, o) for p_, o in out_arrays if o is not kwargs['ind']]     # the given index vector is handed back (not a tensor)
        whitelisted = (name in ('grid_prep_opt', 'grid_prep_opts', 'copy') and not out_arrays) or name in ('grid_prep_opt', 'grid_prep_opts')
        if not whitelisted:
            bad = [(po, pi) for po, o in out_arrays for pi, a in in_arrays if np.shares_memory(o, a)]
            res.check(not bad, 'alias', case, lambda: '%s(%s): %s shares memory with %s' % (name, label, bad[0][0], bad[0][1]), tags + ['alias'])
            # write-after, both directions
            saved_out = [o.tobytes() for _, o in out_arrays]
            for _, a in in_arrays:
                if a.flags.writeable and a.dtype.kind in 'fiu':
                    a[...] = a + 1 if a.dtype.kind in 'iu' else a * 1.5 + 1.0
            res.check(all(o.tobytes() == s for (_, o), s in zip(out_arrays, saved_out)), 'alias.write_args', case,
                      'writing to the arguments changed the result', tags + ['alias'])
            after2 = snap(args), snap([v for k, v in sorted(watched['kwargs'].items())])
            for _, o in out_arrays:
                if o.flags.writeable and o.dtype.kind in 'fiu':
                    o[...] = 0
            res.check((snap(args), snap([v for k, v in sorted(watched['kwargs'].items())])) == after2, 'alias.write_result', case,
                      'writing to the result changed an argument', tags + ['alias'])
        if out_arrays and in_arrays:
            res.nt((name, label, L, rk))
        res.outcome(name)
    return res


def check_surface(c):
    """Every exported callable has a registry entry (or a stated reason)."""
    res = Res()
    R = registry()
    for nm in exported():
        res.ev()
        obj = getattr(teneva, nm, None)
        if not callable(obj):
            continue
        res.check(nm in R or nm in NOT_DRIVEN, 'surface', dict(fn=nm), 'exported function %s has no entry in the C09 registry' % nm, ['surface'])
        if nm in NOT_DRIVEN:
            res.skip('not driven: %s (%s)' % (nm, NOT_DRIVEN[nm]))
    res.nt('surface')
    res.nt('surface2')
    return res


def _periodic(shape, rk, order, pat='gen', tag=96):
    """A train whose equal-shaped middle cores are ONE ndarray object (a periodic tensor), in the given memory order."""
    d = len(shape)
    A = np.array(space.core(pat, 1, shape[0], rk, 0, 0, tag), order=order)
    G = np.array(space.core(pat, rk, shape[1], rk, 1, 0, tag), order=order)
    B = np.array(space.core(pat, rk, shape[-1], 1, 2, 0, tag), order=order)
    return [A] + [G] * (d - 2) + [B]


def _periodic_calls():
    g = lambda sh: space.grid_array(sh)
    f = lambda I: np.cos(np.asarray(I) @ (1.0 + np.arange(np.asarray(I).shape[1])))
    C = {
        'copy': lambda Y, sh: teneva.copy(Y),
        'get_many': lambda Y, sh: teneva.get_many(Y, g(sh)),
        'get_and_grad': lambda Y, sh: teneva.get_and_grad(Y, [0] * len(sh)),
        'interface.ltr': lambda Y, sh: teneva.interface(Y, P=[[1.0, 0.5, 2.0][:n] for n in sh], i=[1] * len(sh), norm=None, ltr=True),
        'interface.rtl': lambda Y, sh: teneva.interface(Y, norm='linalg'),
        'mean': lambda Y, sh: teneva.mean(Y), 'sum': lambda Y, sh: teneva.sum(Y), 'norm.stab': lambda Y, sh: teneva.norm(Y, use_stab=True),
        'full': lambda Y, sh: teneva.full(Y),
        'add.self': lambda Y, sh: teneva.add(Y, Y), 'sub.self': lambda Y, sh: teneva.sub(Y, Y), 'mul.self': lambda Y, sh: teneva.mul(Y, Y),
        'mul.num': lambda Y, sh: teneva.mul(Y, -2.0), 'outer.self': lambda Y, sh: teneva.outer(Y, Y), 'mul_scalar.self': lambda Y, sh: teneva.mul_scalar(Y, Y),
        'accuracy.self': lambda Y, sh: teneva.accuracy(Y, Y), 'add_many.self': lambda Y, sh: teneva.add_many([Y, Y, 1.0, Y], e=1e-8, trunc_freq=2),
        'orthogonalize.0': lambda Y, sh: teneva.orthogonalize(Y, 0), 'orthogonalize.mid.stab': lambda Y, sh: teneva.orthogonalize(Y, 1, use_stab=True),
        'orthogonalize_left.1': lambda Y, sh: teneva.orthogonalize_left(Y, 1), 'orthogonalize_right.2': lambda Y, sh: teneva.orthogonalize_right(Y, 2),
        'truncate.eigh': lambda Y, sh: teneva.truncate(Y, 1e-2), 'truncate.svd.stab': lambda Y, sh: teneva.truncate(Y, 1e-2, use_stab=True, is_eigh=False),
        'truncate.noorth': lambda Y, sh: teneva.truncate(Y, 1e-2, orth=False),
        'func_int': lambda Y, sh: teneva.func_int(Y), 'func_gets': lambda Y, sh: teneva.func_gets(Y, 5), 'func_sum': lambda Y, sh: teneva.func_sum(Y, -1., 2.),
        'func_get': lambda Y, sh: teneva.func_get(np.array([[0.1] * len(sh), [-0.7] * len(sh)]), Y, -1., 1.),
        'optima_tt': lambda Y, sh: list(teneva.optima_tt(Y, 3)), 'optima_tt_beam': lambda Y, sh: teneva.optima_tt_beam(Y, 2, l2r=False, ret_all=True),
        'optima_func_tt_beam': lambda Y, sh: teneva.optima_func_tt_beam(Y, 3),
        'sample_square': lambda Y, sh: teneva.sample_square(Y, 3, unique=False, seed=0), 'sample_func': lambda Y, sh: teneva.sample_func(Y, seed=0),
        'cross.Y0': lambda Y, sh: teneva.cross(f, Y, nswp=2, info={}), 'als.Y0': lambda Y, sh: teneva.als(g(sh), f(g(sh)), Y, nswp=2, info={}),
        'als.adaptive': lambda Y, sh: teneva.als(g(sh), f(g(sh)), Y, nswp=1, info={}, r=3),
        'als_func.A0': lambda Y, sh: teneva.als_func(teneva.ind_to_poi(g(sh), -1., 1., sh[0], 'cheb') * 0.9, f(g(sh)), Y, nswp=2, info={}, thr_pow=0.),
        'tt_to_qtt': lambda Y, sh: teneva.tt_to_qtt(Y) if set(sh) == {2} else None,
        'qtt_to_tt': lambda Y, sh: teneva.qtt_to_tt(Y, 1) if set(sh) == {2} else None,
        'erank_shape': lambda Y, sh: [teneva.erank(Y), teneva.shape(Y), teneva.ranks(Y), teneva.size(Y)],
    }
    return C


def check_periodic(c):
    res = Res()
    name, order, rk = c['fn'], c['order'], c['rank']
    fn = _periodic_calls()[name]
    for sh in ([3, 3, 3, 3], [2, 2, 2, 2, 2]):
        res.ev()
        case = dict(c, shape=sh)
        tags = ['fn=' + name.split('.')[0], 'periodic', 'order=' + order]
        pat = 'genpos' if name.startswith('sample') and 'square' not in name else 'gen'
        Y = _periodic(sh, rk, order, pat)
        Yd = [np.array(G, order=order) for G in Y]           # same values, no sharing
        before = [G.tobytes() for G in Y]
        ids = [id(G) for G in Y]
        try:
            with warnings.catch_warnings(), contextlib.redirect_stdout(io.StringIO()):
                warnings.simplefilter('ignore')
                ref_out = fn(Yd, sh)
        except Exception as ex:
            res.skip('periodic call raised %s (%s)' % (type(ex).__name__, name))
            continue
        try:
            with warnings.catch_warnings(), contextlib.redirect_stdout(io.StringIO()):
                warnings.simplefilter('ignore')
                out = fn(Y, sh)
        except Exception as ex:
            # the same values without sharing were accepted: the failure is caused by the shared core objects
            res.fail('periodic.raised', case, '%s raised %s only when the middle cores are one shared object' % (name, type(ex).__name__), tags + ['mutation'])
            continue
        res.check([G.tobytes() for G in Y] == before and [id(G) for G in Y] == ids, 'periodic.mutation', case,
                  '%s modified a tensor whose middle cores are one shared object' % name, tags + ['mutation'])
        a = [o.tobytes() + str(o.shape).encode() for _, o in arrays_in(out, 'r')] + [repr(x) for x in (out if isinstance(out, (list, tuple)) else [out]) if isinstance(x, (int, float))]
        b = [o.tobytes() + str(o.shape).encode() for _, o in arrays_in(ref_out, 'r')] + [repr(x) for x in (ref_out if isinstance(ref_out, (list, tuple)) else [ref_out]) if isinstance(x, (int, float))]
        res.check(a == b, 'periodic.same_result', case,
                  '%s gives a different result when the equal middle cores are one shared object than when they are separate copies' % name, tags)
        bad = [(po, k) for po, o in arrays_in(out, 'result') for k, G in enumerate(Y) if np.shares_memory(o, G)]
        res.check(not bad, 'periodic.alias', case, lambda: '%s: %s shares memory with core %d' % (name, bad[0][0], bad[0][1]), tags + ['alias'])
        res.nt((name, order, rk, tuple(sh)))
    return res


CHECKERS = {'entry': check_entry, 'surface': check_surface, 'periodic': check_periodic}


def strata(tier, seed):
    yield Stratum('api surface', [dict(what='surface')], 'surface', size=1, chunk=1, bounds={'exported': len(exported())})
    names = sorted(registry())
    ranks = [1, 2] if tier == 'quick' else [1, 2, 3]
    cs = [dict(fn=n, layout=L, rank=rk) for n in names for L in LAYOUTS for rk in ranks]
    pc = [dict(fn=n, order=o, rank=rk) for n in sorted(_periodic_calls()) for o in ('F', 'C') for rk in (2, 3)]
    yield Stratum('periodic trains (one core object at several positions)', pc, 'periodic', seq=True, size=len(pc), chunk=4, bounds={'orders': ['F', 'C']})
    yield Stratum('entries x layouts x ranks', cs, 'entry', seq=True, size=len(names) * len(LAYOUTS) * len(ranks), chunk=2,
                  bounds={'functions': len(names), 'layouts': list(LAYOUTS), 'ranks': ranks})
