"""C01 - TT evaluation and algebra agree elementwise with dense tensor algebra.

Mode G: BFS over expression trees (add / sub / mul / outer / number operands / copy /
add_many / outer_many) from every leaf of a complete small lattice of TT-tensors; at EVERY
state every observer is compared with a reference interpreter that runs the same
expression on dense arrays.  Bit-exact whenever all cores of the state are small dyadic
numbers (then every sum of products the library can form is exact in binary64)."""
import itertools
import warnings

import numpy as np
import teneva

from mc import ref, space
from mc.engine import Res, Stratum, digest

ID = 'C01'
REGISTERED = True
LEVEL = 'model_checking'
TECHNIQUE = ('explicit-state BFS over operation sequences (expression trees to depth 2-3) from every leaf of an exhaustive '
             'lattice (shapes x rank profiles x value patterns); states keyed by core bytes; on every state all observers vs. '
             'a dense reference interpreter, bit-exact in the integer/dyadic regime, a-priori rounding bound otherwise')
LEVEL_TEXT = ('all states reachable within the depth bound are visited and every evaluation / algebra routine is compared on each '
              'with an independent dense interpretation of the same expression: every multi-index, every interface position and '
              'option, every gradient slice; block-placement, Kronecker-order and first/last-core bugs need unequal ranks, d = 2, '
              'mode size 1 or a number operand, all of which the lattice contains')
LEVEL_NOTE = ('bounded: d <= 4 leaves (results up to d = 5 through outer), n <= 3, ranks <= 3, depth 2 (3 on the smallest leaves); '
              'values: two integer patterns (bit-exact oracle) + one generic pattern per VERIF_SEED (rounding-bound oracle)')
RULE = ('leaves = product(shape, rank profile, pattern); transitions = add/sub/mul with 2 partner tensors or 6 numbers on either '
        'side, outer, copy, add_many, outer_many; BFS to the depth of the stratum with de-duplication by core bytes. States = '
        'distinct (cores bytes); transitions = library calls creating a state. Non-trivial: a state produced by at least one '
        'operation (depth >= 1); every state gets the full observer set.')
ASSUMPTIONS = ['integer / dyadic regime: product over cores of max(1, sum|scaled core|) < 2^52, then all partial sums are exact',
               'add_many is compared to its rounding accuracy e only (C02 owns its error bound)']

U = 2.0 ** -53
NUMS = [0, 1, -1, 2, 0.5, -3.0, 1e-17, -2e-30, np.float64(-0.25), True]


def is_num(x):
    return isinstance(x, (int, float))


def exact_regime(Y):
    tot = 1.0
    for G in Y:
        if not np.all(np.isfinite(G)):
            return False
        S = G * 1024.0
        if not np.all(S == np.round(S)):
            return False
        tot *= max(1.0, float(np.abs(S).sum()))
        if tot >= 2.0 ** 52:
            return False
    return True


class State:
    __slots__ = ('Y', 'D', 'B', 'hist', 'depth')

    def __init__(self, Y, D, B, hist, depth):
        self.Y, self.D, self.B, self.hist, self.depth = Y, D, B, hist, depth


def leaf_state(c, seed):
    Y = space.tt_case(c, seed)
    return State(Y, ref.dense(Y), ref.dense_abs(Y), ['leaf'], 0)


def _dense_of(x, shape):
    return float(x) * np.ones(shape) if is_num(x) else x


def apply_op(op, S, other):
    """-> State or None.  `other` is a State (partner) or a number."""
    a_num, b_num = is_num(S.Y), is_num(other.Y if isinstance(other, State) else other)
    oY = other.Y if isinstance(other, State) else other
    oD = other.D if isinstance(other, State) else other
    oB = other.B if isinstance(other, State) else abs(other)
    name, side = op
    x, y = (S.Y, oY) if side == 'l' else (oY, S.Y)
    xD, yD = (S.D, oD) if side == 'l' else (oD, S.D)
    xB, yB = (S.B, oB) if side == 'l' else (oB, S.B)
    with warnings.catch_warnings():
        warnings.simplefilter('ignore')
        if name == 'add':
            Z = teneva.add(x, y)
            D, B = xD + yD, xB + yB
        elif name == 'sub':
            Z = teneva.sub(x, y)
            D, B = xD - yD, xB + yB
        elif name == 'mul':
            Z = teneva.mul(x, y)
            D, B = xD * yD, xB * yB
        elif name == 'outer':
            Z = teneva.outer(x, y)
            D, B = np.multiply.outer(xD, yD), np.multiply.outer(xB, yB)
        elif name == 'copy':
            Z = teneva.copy(x)
            D, B = (xD.copy() if isinstance(xD, np.ndarray) else xD), xB
        elif name == 'outer_many':
            Z = teneva.outer_many([x, y, x])
            D = np.multiply.outer(np.multiply.outer(xD, yD), xD)
            B = np.multiply.outer(np.multiply.outer(xB, yB), xB)
        else:
            raise ValueError(name)
    return State(Z, D, B, S.hist + ['%s.%s(%s)' % (name, side, 'T' if isinstance(other, State) else other)], S.depth + 1)


def observe(res, case, S, partner, tags):
    """All observers on one state."""
    Y, D, B = S.Y, S.D, S.B
    if is_num(Y):
        res.check(is_num(D) and Y == D, 'number', case, lambda: 'number state %r vs %r' % (Y, D), tags)
        return
    d = len(Y)
    case = dict(case, hist=S.hist)
    why = ref.wellformed(Y)
    if not res.check(why is None, 'wellformed', case, lambda: str(why), tags):
        return
    shape = [G.shape[1] for G in Y]
    if not res.check(list(D.shape) == shape, 'shape.expr', case, lambda: 'state shape %s, expression shape %s' % (shape, list(D.shape)), tags):
        return
    exact = exact_regime(Y)
    cb = 64.0 * (sum(G.shape[0] + G.shape[1] for G in Y) + 4 * S.depth + 8) * U
    tol = np.zeros_like(B) if exact else cb * B + 1e-300
    tolmax = float(tol.max()) if tol.size else 0.0
    sums_tol = 0.0 if exact else cb * float(B.sum()) + 1e-300
    tg = tags + (['exact'] if exact else ['float'])

    def close(a, b, t):
        return np.all(np.abs(np.asarray(a, dtype=float) - np.asarray(b, dtype=float)) <= t)

    with warnings.catch_warnings():
        warnings.simplefilter('ignore')
        # ---- props -----------------------------------------------------------------------------
        res.check(np.array_equal(teneva.shape(Y), shape), 'shape', case, 'teneva.shape', tg)
        rk = [1] + [G.shape[2] for G in Y]
        res.check(np.array_equal(teneva.ranks(Y), rk), 'ranks', case, 'teneva.ranks', tg)
        res.check(int(teneva.size(Y)) == sum(G.size for G in Y), 'size', case, 'teneva.size', tg)
        er = teneva.erank(Y)
        if d == 2:
            res.check(er == rk[1], 'erank', case, lambda: 'erank %r for d=2, r1=%d' % (er, rk[1]), tg)
        else:
            n = np.array(shape, dtype=float)
            r = np.array(rk, dtype=float)
            lhs = n[0] * er + np.sum(n[1:-1]) * er ** 2 + n[-1] * er
            rhs = float(np.sum(n * r[:-1] * r[1:]))
            res.check(abs(lhs - rhs) <= 1e-9 * rhs and er > 0, 'erank', case,
                      lambda: 'erank %r does not solve its defining equation (%r vs %r)' % (er, lhs, rhs), tg)
        # ---- element access ----------------------------------------------------------------------
        grid = space.grid_array(shape)
        want = D[tuple(grid.T)]
        tl = tol[tuple(grid.T)]
        got = np.array([teneva.get(Y, list(i)) for i in grid])
        res.check(close(got, want, tl), 'get', case,
                  lambda: 'get differs at %s: %r vs %r' % (grid[np.argmax(np.abs(got - want) - tl)].tolist(), got[np.argmax(np.abs(got - want) - tl)], want[np.argmax(np.abs(got - want) - tl)]), tg)
        got2 = np.array([teneva.get(Y, np.array(i)) for i in grid[:: max(1, len(grid) // 7)]])
        res.check(close(got2, want[:: max(1, len(grid) // 7)], tl[:: max(1, len(grid) // 7)]), 'get.array_arg', case, 'get with ndarray index', tg)
        gm = teneva.get_many(Y, grid)
        res.check(gm.shape == want.shape and close(gm, want, tl), 'get_many', case, 'get_many on the whole grid', tg)
        rep = np.vstack([grid[::-1], grid[:2], grid[-1:]])
        gm2 = teneva.get_many(Y, rep.tolist())
        res.check(close(gm2, D[tuple(rep.T)], tol[tuple(rep.T)]), 'get_many.repeats_list', case, 'get_many with repeats / list of lists', tg)
        for form in (grid[-1:], grid[-1:].tolist()):               # a batch of one row stays a batch
            g1 = teneva.get_many(Y, form)
            g1b = teneva.get(Y, form)
            res.check(np.shape(g1) == (1,) and np.shape(g1b) == (1,) and close(g1, want[-1:], tl[-1:]) and close(g1b, want[-1:], tl[-1:]), 'get_many.one_row', case,
                      lambda: 'a one-row batch gave shapes %s / %s' % (np.shape(g1), np.shape(g1b)), tg)
        gb = teneva.get(Y, rep)
        res.check(close(gb, D[tuple(rep.T)], tol[tuple(rep.T)]), 'get.batch', case, 'get with a batch', tg)
        F = teneva.full(Y)
        res.check(F.shape == D.shape and close(F, D, tol), 'full', case,
                  lambda: 'full: shape %s vs %s, max dev %.3e' % (F.shape, D.shape, np.abs(F - D).max() if F.shape == D.shape else -1), tg)
        # ---- reductions ---------------------------------------------------------------------------
        res.check(close(teneva.sum(Y), D.sum(), sums_tol), 'sum', case, lambda: 'sum %r vs %r' % (teneva.sum(Y), D.sum()), tg)
        N = float(D.size)
        dy = all(n & (n - 1) == 0 for n in shape)
        res.check(close(teneva.mean(Y), D.sum() / N, (0.0 if exact and dy else cb * float(B.sum()) / N + 1e-300)), 'mean', case,
                  lambda: 'mean %r vs %r' % (teneva.mean(Y), D.sum() / N), tg)
        P = [[(0.5, 0.25, 2.0, 1.0)[(j + k) % 4] for j in range(n)] for k, n in enumerate(shape)]
        Wt = np.ones(1)
        for p in P:
            Wt = np.multiply.outer(Wt, np.array(p))
        Wt = Wt[0]
        res.check(close(teneva.mean(Y, P), float((D * Wt).sum()), (0.0 if exact else cb * float((B * Wt).sum()) + 1e-300)), 'mean.weighted', case,
                  lambda: 'weighted mean %r vs %r' % (teneva.mean(Y, P), float((D * Wt).sum())), tg)
        Plong = [p + [9.0, 9.0] for p in P]
        res.check(close(teneva.mean(Y, Plong), float((D * Wt).sum()), (0.0 if exact else cb * float((B * Wt).sum()) + 1e-300)), 'mean.long_weights', case,
                  'weights longer than the mode must be cut to the mode size', tg)
        ss = float((D * D).sum())
        ss_tol = 0.0 if exact and exact_regime([g for g in Y] + [g for g in Y]) else 4 * cb * float((B * B).sum()) + 1e-300
        ms = teneva.mul_scalar(Y, Y)
        res.check(close(ms, ss, ss_tol), 'mul_scalar.self', case, lambda: '<Y,Y> = %r vs %r' % (ms, ss), tg)
        nr = teneva.norm(Y)
        res.check(close(nr, np.sqrt(ss), 0.0 if ss_tol == 0.0 else (ss_tol / max(np.sqrt(ss), 1e-300) + 1e-15 * np.sqrt(ss))), 'norm', case,
                  lambda: 'norm %r vs %r' % (nr, np.sqrt(ss)), tg)
        if partner is not None and list(partner.D.shape) == shape:
            sp = float((D * partner.D).sum())
            ex2 = exact and exact_regime(list(Y) + list(partner.Y))
            t2 = 0.0 if ex2 else 4 * cb * float((B * partner.B).sum()) + 1e-300
            res.check(close(teneva.mul_scalar(Y, partner.Y), sp, t2), 'mul_scalar', case, 'scalar product with the partner', tg)
            res.check(close(teneva.mul_scalar(partner.Y, Y), sp, t2), 'mul_scalar.sym', case, 'scalar product (swapped)', tg)
            npd = float(np.linalg.norm(partner.D))
            if npd > 1e-200:
                wantacc = float(np.linalg.norm(D - partner.D)) / npd
                acc = teneva.accuracy(Y, partner.Y)
                ta = 1e-9 * max(wantacc, 1e-300) + 64 * cb * float(np.linalg.norm(B + partner.B)) / npd * 1e3 + 1e-12
                res.check(abs(acc - wantacc) <= ta, 'accuracy', case, lambda: 'accuracy %r vs %r' % (acc, wantacc), tg)
            facc = teneva.accuracy(F, partner.D) if npd > 0 else 0
            if npd > 0:
                res.check(abs(facc - np.linalg.norm(F - partner.D) / npd) <= 1e-12 * (1 + facc), 'accuracy.numpy', case, 'accuracy on dense arrays', tg)
        ydat = D[tuple(rep.T)] * 1.5 + 1.0
        nd = float(np.linalg.norm(ydat))
        if nd > 0:
            aod = teneva.accuracy_on_data(Y, rep, ydat)
            wantd = float(np.linalg.norm(D[tuple(rep.T)] - ydat)) / nd
            res.check(abs(aod - wantd) <= 1e-12 * (1 + wantd) + 16 * tolmax * np.sqrt(len(rep)) / nd, 'accuracy_on_data', case,
                      lambda: 'accuracy_on_data %r vs %r' % (aod, wantd), tg)
        res.check(teneva.accuracy_on_data(Y, None, None) == -1, 'accuracy_on_data.missing', case, 'missing data must give -1', tg)
        # ---- interfaces -----------------------------------------------------------------------------
        _interfaces(res, case, Y, shape, exact, cb, tg, full=(S.depth <= 1))
        # ---- element gradients --------------------------------------------------------------------------
        for i in grid[:: max(1, len(grid) // 9)]:
            v, gr = teneva.get_and_grad(Y, list(i))
            res.check(close(v, D[tuple(i)], tol[tuple(i)]), 'grad.value', case, 'get_and_grad value', tg)
            okg = len(gr) == d
            for k in range(d):
                L = np.ones((1, 1))
                for j in range(k):
                    L = L @ Y[j][:, i[j], :]
                R = np.ones((1, 1))
                for j in range(d - 1, k, -1):
                    R = Y[j][:, i[j], :] @ R
                E = np.zeros(Y[k].shape)
                E[:, i[k], :] = np.outer(L[0], R[:, 0])
                Eb = np.zeros(Y[k].shape)
                Lb = np.ones((1, 1))
                for j in range(k):
                    Lb = Lb @ np.abs(Y[j][:, i[j], :])
                Rb = np.ones((1, 1))
                for j in range(d - 1, k, -1):
                    Rb = np.abs(Y[j][:, i[j], :]) @ Rb
                Eb[:, i[k], :] = np.outer(Lb[0], Rb[:, 0])
                okg = okg and gr[k].shape == E.shape and close(gr[k], E, (0.0 if exact else cb * Eb + 1e-300))
            res.check(okg, 'grad', case, lambda: 'gradient cores differ at index %s' % i.tolist(), tg)
            # the same entry addressed from the end (negative indices, which get / get_many / the dense array accept): same value, same gradient
            ineg = [int(x) - n for x, n in zip(i, shape)]
            imix = [int(x) - n if k % 2 == 0 else int(x) for k, (x, n) in enumerate(zip(i, shape))]
            for alt in (ineg, imix):
                v2, gr2 = teneva.get_and_grad(Y, list(alt))
                g2 = teneva.get(Y, list(alt))
                gm2 = teneva.get_many(Y, np.array([alt, alt]))
                res.check(v2 == v and g2 == teneva.get(Y, list(i)) and gm2.shape == (2,) and np.array_equal(gm2, teneva.get_many(Y, np.array([list(i), list(i)]))) and len(gr2) == d
                          and all(np.array_equal(a_, b_) for a_, b_ in zip(gr2, gr)), 'negative_index', dict(case, i=[int(x) for x in alt]),
                          lambda: 'index %s (from the end) gives another value or gradient than %s' % (list(alt), i.tolist()), tg)


def _interfaces(res, case, Y, shape, exact, cb, tg, full=True):
    d = len(Y)
    Pm = [[(1.0, 0.5, 2.0, 0.25)[(j + 2 * k) % 4] for j in range(n)] for k, n in enumerate(shape)]
    same = len(set(shape)) == 1
    Ps = [None, Pm] + ([Pm[0]] if same else [])
    idx = [None] + [list(i) for i in space.grid_array(shape)[:: max(1, int(np.prod(shape)) // 5)]]
    norms = (None, 'linalg', 'natural', 'l', 'n')
    if not full:          # deeper states: reduced option battery (all positions, both directions, weights, one index)
        idx = [None, idx[-1]]
        norms = (None, 'natural')
        Ps = Ps[:2]
    absY = [np.abs(G) for G in Y]

    def vecs(cores, P, i, ltr):
        """Un-normalised interface vectors by explicit reduction of dense sub-trains."""
        out = [None] * (d + 1)
        for k in range(d + 1):
            sub = list(range(k)) if ltr else list(range(k, d))
            if not sub:
                out[k] = np.ones(1)
                continue
            T = cores[sub[0]]
            for j in sub[1:]:
                T = np.tensordot(T, cores[j], 1)        # (r_a, n.., r_b)
            for pos, j in enumerate(sub):
                ax = 1 + pos
                w = np.ones(shape[j]) if P is None else np.array(P if isinstance(P[0], (int, float)) else P[j], dtype=float)[:shape[j]]
                if i is not None:
                    sel = np.zeros(shape[j])
                    sel[i[j]] = 1.0
                    w = w * sel if P is not None else sel
                T = np.moveaxis(T, ax, -1) * w
                T = np.moveaxis(T, -1, ax)
            T = T.sum(axis=tuple(range(1, 1 + len(sub))))
            out[k] = T[0, :] if ltr else T[:, 0]
        return out

    for P in Ps:
        for i in idx:
            for ltr in (False, True):
                V = vecs(Y, P, i, ltr)
                VB = vecs(absY, None if P is None else ([[abs(x) for x in p] for p in P] if not isinstance(P[0], (int, float)) else [abs(x) for x in P]), i, ltr)
                for norm in norms:
                    res.ev()
                    cs = dict(case, interface=dict(P=('shared' if P is not None and isinstance(P[0], (int, float)) else ('per-mode' if P else None)),
                                                   i=i, norm=norm, ltr=ltr))
                    phi = teneva.interface(Y, P, i, norm, ltr)
                    ok = len(phi) == d + 1 and all(np.asarray(a).shape == b.shape for a, b in zip(phi, V))
                    if not res.check(ok, 'interface.shape', cs, 'interface vectors have wrong count / lengths', tg):
                        continue
                    if norm is None:
                        good = all(np.all(np.abs(a - b) <= (0.0 if exact else cb * bb + 1e-300)) for a, b, bb in zip(phi, V, VB))
                        res.check(good, 'interface', cs, lambda: 'interface vectors differ (ltr=%s, P=%s, i=%s)' % (ltr, cs['interface']['P'], i), tg)
                    else:
                        rng = range(1, d + 1) if ltr else range(0, d)
                        good, skip = True, False
                        for k in rng:
                            v = V[k]
                            if norm.startswith('l'):
                                nv = np.linalg.norm(v)
                                if nv <= 1e3 * cb * np.linalg.norm(VB[k]) + 1e-300:
                                    skip = True
                                    break
                                w = v / nv
                                t = 1e-12 + 1e3 * cb * np.linalg.norm(VB[k]) / nv
                            else:
                                sub = range(k) if ltr else range(k, d)
                                w = v / float(np.prod([shape[j] for j in sub]))
                                t = 1e-12 * (np.abs(w).max() + 1e-300) + cb * np.abs(VB[k]).max()
                            good = good and np.all(np.abs(phi[k] - w) <= t)
                        if skip:
                            res.skip('interface: vanishing vector cannot be normalised')
                        else:
                            res.check(good, 'interface.norm', cs, lambda: 'normalised interface differs (norm=%s, ltr=%s)' % (norm, ltr), tg)


def check_leaf(c):
    res = Res()
    seed = c.get('seed', 0)
    depth = c['depth']
    root = leaf_state(c, seed)
    shape = c['shape']
    d = len(shape)
    partners = []
    for j, (pat, r) in enumerate(c['partners']):
        pc = dict(shape=shape, ranks=[1] + [r] * (d - 1) + [1], pat=pat, tag=7 + j)
        partners.append(leaf_state(pc, seed))
    small = State(space.tt([2, 1], [1, 2, 1], 'intB', seed), None, None, ['leaf2'], 0)
    small.D, small.B = ref.dense(small.Y), ref.dense_abs(small.Y)
    tags = ['pat=' + c['pat'], 'd=%d' % d]
    seen = {}
    frontier = [root]
    seen[digest(ref.core_bytes(root.Y))] = 0
    case = {k: c[k] for k in ('shape', 'ranks', 'pat', 'seed', 'depth', 'partners')}
    res.ev()
    observe(res, case, root, partners[0], tags)
    # batches longer than any plausible internal block size (2^14, 2^15): every row must still be evaluated
    grid = space.grid_array(shape)
    for L in (16385, 40001):
        res.ev()
        big = np.tile(grid, (L // len(grid) + 1, 1))[:L]
        want = root.D[tuple(big.T)]
        ex = exact_regime(root.Y)
        tl = 0.0 if ex else 64.0 * 64 * U * float(root.B.max())
        with warnings.catch_warnings():
            warnings.simplefilter('ignore')
            gm = teneva.get_many(root.Y, big)
            gb = teneva.get(root.Y, big)
            ydat = want * 1.5 + 1.0
            aod = teneva.accuracy_on_data(root.Y, big, ydat)
        res.check(gm.shape == want.shape and np.all(np.abs(gm - want) <= tl) and np.all(np.abs(gb - want) <= tl), 'get_many.long_batch', dict(case, rows=L),
                  lambda: 'batch of %d rows: %d entries differ' % (L, int(np.sum(np.abs(gm - want) > tl)) if gm.shape == want.shape else -1), tags)
        nd = float(np.linalg.norm(ydat))
        if nd > 0:
            wantd = float(np.linalg.norm(want - ydat)) / nd
            res.check(abs(aod - wantd) <= 1e-10 * (1 + wantd), 'accuracy_on_data.long_batch', dict(case, rows=L),
                      lambda: 'data set of %d rows: accuracy_on_data %r vs %r' % (L, aod, wantd), tags)
    # index arguments in other integer dtypes / containers, and integer-typed cores (read-only observers)
    res.ev()
    want = root.D[tuple(grid.T)]
    ex = exact_regime(root.Y)
    tl = 0.0 if ex else 64.0 * 64 * U * float(root.B.max())
    with warnings.catch_warnings():
        warnings.simplefilter('ignore')
        okd = True
        for dt in (np.int32, np.int16, np.uint8, np.uint16, np.int8):
            gi = grid.astype(dt)
            okd = okd and np.all(np.abs(teneva.get_many(root.Y, gi) - want) <= tl) and np.all(np.abs(teneva.get(root.Y, gi) - want) <= tl)
            okd = okd and abs(teneva.get(root.Y, gi[-1]) - want[-1]) <= tl
        okd = okd and abs(teneva.get(root.Y, tuple(int(x) for x in grid[-1])) - want[-1]) <= tl
        okd = okd and np.all(np.abs(teneva.get_many(root.Y, [tuple(int(x) for x in r_) for r_ in grid]) - want) <= tl)
    res.check(bool(okd), 'get.index_dtypes', case, 'element access depends on the integer dtype / container of the multi-indices', tags)
    if c['pat'] in ('intA', 'intB'):
        res.ev()
        Yi = [G.astype(np.int64) for G in root.Y]
        with warnings.catch_warnings():
            warnings.simplefilter('ignore')
            oki = np.array_equal(teneva.full(Yi), root.D) and np.array_equal(teneva.get_many(Yi, grid), want)
            oki = oki and teneva.sum(Yi) == root.D.sum() and teneva.mul_scalar(Yi, Yi) == float((root.D * root.D).sum())
            oki = oki and abs(teneva.norm(Yi) - np.sqrt(float((root.D * root.D).sum()))) <= 1e-12 * (1 + np.sqrt(float((root.D * root.D).sum())))
            Zi = teneva.add(Yi, Yi)
            Mi = teneva.mul(Yi, Yi)
            oki = oki and np.array_equal(ref.dense(Zi), 2 * root.D) and np.array_equal(ref.dense(Mi), root.D * root.D)
            # mixed dtypes: an integer-typed operand with a float tensor / a non-integer number, on either side
            Pf = partners[1 % len(partners)]
            for a_, b_, want_ in ((Yi, Pf.Y, root.D + Pf.D), (Pf.Y, Yi, Pf.D + root.D)):
                oki = oki and np.abs(ref.dense(teneva.add(a_, b_)) - want_).max() <= 1e-12 * (1 + np.abs(want_).max())
            oki = oki and np.abs(ref.dense(teneva.sub(Yi, Pf.Y)) - (root.D - Pf.D)).max() <= 1e-12 * (1 + np.abs(root.D - Pf.D).max())
            oki = oki and np.abs(ref.dense(teneva.sub(Pf.Y, Yi)) - (Pf.D - root.D)).max() <= 1e-12 * (1 + np.abs(root.D - Pf.D).max())
            oki = oki and np.abs(ref.dense(teneva.mul(Yi, 0.5)) - 0.5 * root.D).max() <= 1e-12 * (1 + np.abs(root.D).max())
            oki = oki and np.abs(ref.dense(teneva.mul(-1.5, Yi)) + 1.5 * root.D).max() <= 1e-12 * (1 + np.abs(root.D).max())
            oki = oki and np.abs(ref.dense(teneva.mul(Yi, Pf.Y)) - root.D * Pf.D).max() <= 1e-12 * (1 + np.abs(root.D * Pf.D).max())
            oki = oki and np.abs(ref.dense(teneva.add(Yi, 0.5)) - (root.D + 0.5)).max() <= 1e-12 * (1 + np.abs(root.D).max())
            oki = oki and np.abs(ref.dense(teneva.sub(0.25, Yi)) - (0.25 - root.D)).max() <= 1e-12 * (1 + np.abs(root.D).max())
            oki = oki and abs(teneva.mul_scalar(Yi, Pf.Y) - float((root.D * Pf.D).sum())) <= 1e-12 * (1 + float(np.abs(root.D * Pf.D).sum()))
            Am = teneva.add_many([Yi, Pf.Y, 0.5, Yi], e=1e-12)
            wm = 2 * root.D + Pf.D + 0.5
            oki = oki and np.abs(ref.dense(Am) - wm).max() <= 1e-9 * (1 + np.abs(wm).max())
            if len(root.Y) >= 2:
                Ymx = [G.copy() for G in root.Y]
                Ymx[0] = Yi[0]                                       # integer-typed FIRST core, float cores behind it
                Ymx[-1] = Ymx[-1] * 0.5
                bigm = np.tile(grid, (20011 // len(grid) + 1, 1))[:20011]
                wmx = (root.D * 0.5)[tuple(bigm.T)]
                oki = oki and np.abs(teneva.get_many(Ymx, bigm) - wmx).max() <= 1e-12 * (1 + np.abs(wmx).max())
            vst, pst = teneva.mul_scalar(Yi, Yi, use_stab=True)
            oki = oki and abs(vst * 2.0 ** pst - float((root.D * root.D).sum())) <= 1e-12 * (1 + float((root.D * root.D).sum()))
        res.check(bool(oki), 'int_typed_cores', case, 'integer-typed cores (int64) are not evaluated like the same values stored as floats', tags)
    nums = c.get('nums', NUMS)
    while frontier:
        S = frontier.pop(0)
        if S.depth >= depth:
            continue
        moves = []
        if not is_num(S.Y):
            for P in partners:
                for name in ('add', 'sub', 'mul'):
                    for side in 'lr':
                        moves.append(((name, side), P))
            for v in (nums if S.depth == 0 else nums[:4] + nums[6:7]):
                for name in ('add', 'sub', 'mul'):
                    for side in 'lr':
                        moves.append(((name, side), v))
            moves.append((('copy', 'l'), S))
            if len(S.Y) + 2 <= 5:
                moves.append((('outer', 'l'), small))
                moves.append((('outer', 'r'), small))
            if 2 * len(S.Y) + 2 <= 5:
                moves.append((('outer_many', 'l'), small))
        for op, other in moves:
            res.ev()
            try:
                T = apply_op(op, S, other)
            except Exception as ex:
                res.fail('op.raised', dict(case, hist=S.hist + [str(op)]), '%s raised %s: %s' % (op, type(ex).__name__, str(ex)[:120]), tags)
                continue
            res.tr()
            # a state is (cores, denoted reference value): two paths merge only if BOTH agree, otherwise the
            # second path is observed too (equal cores with different expected values is exactly a bug)
            key = digest(ref.core_bytes(T.Y) + np.ascontiguousarray(T.D).tobytes()) if not is_num(T.Y) else digest(('num', T.Y, T.D))
            if op[0] == 'copy':
                fresh = all(not np.shares_memory(a, b) for a, b in zip(T.Y, S.Y))
                res.check(fresh and ref.core_bytes(T.Y) == ref.core_bytes(S.Y), 'copy', dict(case, hist=T.hist), 'copy is not an independent equal tensor', tags)
                continue
            if key in seen:
                continue
            seen[key] = T.depth
            res.state(key)
            res.nt(key)
            pt = partners[0] if (not is_num(T.Y) and len(T.Y) == d) else None
            observe(res, case, T, pt, tags)
            if not is_num(T.Y) and len(T.Y) == d:
                frontier.append(T)
    # number (.) number and copy of non-tensors, add_many / outer_many at the root
    for a, b in itertools.product(nums, repeat=2):
        res.ev()
        res.check(teneva.add(a, b) == a + b and teneva.sub(a, b) == a - b and teneva.mul(a, b) == a * b, 'number.ops',
                  dict(case, nums=[a, b]), 'number (.) number', tags)
    res.check(teneva.copy(None) is None and teneva.copy(2.5) == 2.5 and np.array_equal(teneva.copy(root.D), root.D), 'copy.other', case,
              'copy of None / number / array', tags)
    with warnings.catch_warnings():
        warnings.simplefilter('ignore')
        for items, val in (([root.Y, partners[0].Y, 2], root.D + partners[0].D + 2),
                           ([1, root.Y], 1 + root.D), ([root.Y], root.D),
                           ([root.Y, partners[0].Y, root.Y, partners[1 % len(partners)].Y], 2 * root.D + partners[0].D + partners[1 % len(partners)].D)):
            res.ev()
            Z = teneva.add_many(items, e=1e-12, trunc_freq=2)
            ok = ref.wellformed(Z, shape) is None
            res.check(ok and np.linalg.norm(ref.dense(Z) - val) <= 1e-9 * max(np.linalg.norm(val), 1e-300) + 1e-12 * np.linalg.norm(root.B + partners[0].B + 2),
                      'add_many', dict(case, n_items=len(items)), 'add_many differs from the dense sum', tags)
        # summands that cancel later: partial sums have larger ranks than the result; a cap that does not bind for the exact sum must not cost accuracy
        P0, P1 = partners[0].Y, partners[1 % len(partners)].Y
        rcap = max(G.shape[2] for G in root.Y)
        for tf in (2, 15):
            res.ev()
            items = [root.Y] + [P0, P1, teneva.mul(P0, -1.0), teneva.mul(P1, -1.0)] * 4
            Z = teneva.add_many(items, e=1e-12, r=rcap, trunc_freq=tf)
            nb = float(np.linalg.norm(root.B + 8 * (partners[0].B + partners[1 % len(partners)].B)))
            dev = float(np.linalg.norm(ref.dense(Z) - root.D))
            res.check(ref.wellformed(Z, shape) is None and dev <= 1e-9 * max(np.linalg.norm(root.D), 1e-300) + 1e-10 * nb, 'add_many.cancel', dict(case, trunc_freq=tf, r=rcap),
                      lambda: 'A + 4 (B + C - B - C) with the cap r = rank(A) = %d deviates from A by %.3e' % (rcap, dev), tags)
        res.check(teneva.outer_many([]) is None, 'outer_many.empty', case, 'outer_many([])', tags)
    res.outcome('states=%d' % len(seen))
    return res


CHECKERS = {'leaf': check_leaf}


def _leaves(tier, seed):
    out = []
    pats = ['intA', 'intB', 'gen']
    if tier == 'quick':
        plan = [(2, [1, 2, 3], [1, 2, 3], 2), (3, [1, 2, 3], [1, 2, 3], 1), (4, [1, 2], [1, 2], 1)]
    else:
        plan = [(2, [1, 2, 3], [1, 2, 3], 3), (3, [1, 2, 3], [1, 2, 3], 2), (4, [1, 2], [1, 2, 3], 2)]
    for d, ns, rs, depth in plan:
        for sh in space.shapes([d], ns):
            for rk in space.rank_profiles(d, rs):
                for pat in pats:
                    dd = depth
                    if tier != 'quick' and d == 2 and max(sh) > 2:
                        dd = 2
                    if tier == 'quick' and d == 2 and pat == 'intB':
                        dd = 1
                    out.append(dict(shape=sh, ranks=rk, pat=pat, depth=dd, partners=[['intB', 2], ['gen', 1]], seed=seed,
                                    nums=NUMS if dd <= 2 else NUMS[:4] + NUMS[6:7]))
    for sh, rk in (([7, 5], [1, 4, 1]), ([2, 9, 3], [1, 2, 5, 1]), ([4, 1, 6, 2], [1, 3, 3, 2, 1]), ([2] * 5, [1, 2, 3, 3, 2, 1])):
        for pat in pats:
            out.append(dict(shape=sh, ranks=rk, pat=pat, depth=1, partners=[['intB', 2], ['gen', 1]], seed=seed, nums=NUMS))
    # moderately large sizes (mode 17 / 32 / 40, rank 6 / 7 / 10, d = 6 / 8 / 10; coprime mode sizes): one level of operations on each
    for sh, rk in (([17, 3], [1, 6, 1]), ([3, 32], [1, 3, 1]), ([40, 2], [1, 2, 1]), ([5, 7, 11], [1, 5, 7, 1]), ([12, 12], [1, 10, 1]), ([3] * 6, [1, 2, 3, 2, 3, 2, 1]),
                   ([2] * 8, [1, 2, 4, 6, 6, 4, 2, 2, 1]), ([2] * 10, [1, 2, 2, 3, 2, 2, 3, 2, 2, 2, 1])):
        out.append(dict(shape=sh, ranks=rk, pat='gen', depth=1, partners=[['intB', 2], ['gen', 1]], seed=seed, nums=NUMS[:4] + NUMS[6:7]))
    return out


def strata(tier, seed):
    ls = _leaves(tier, seed)
    for d in sorted({len(l['shape']) for l in ls}):
        sub = [l for l in ls if len(l['shape']) == d]
        yield Stratum('expression trees, d=%d leaves' % d, sub, 'leaf', size=len(sub), chunk=1,
                      bounds={'depth': sorted({l['depth'] for l in sub}), 'leaves': len(sub)})
