"""C04 - orthogonalize preserves the tensor and yields orthonormal cores around the pivot.

Mode L: every leaf x every pivot x stab.  Mode G: BFS over the single-step variants
orthogonalize_left(i) / orthogonalize_right(i) (inplace on/off) with invariants on every
state and confluence with orthogonalize(k) (bit-exact for the in-place composition)."""
import itertools
import warnings

import numpy as np
import teneva

from mc import ref, space
from mc.engine import Res, Stratum, digest

ID = 'C04'
REGISTERED = True
LEVEL = 'model_checking'
TECHNIQUE = ('exhaustive lattice (shapes x rank profiles x patterns incl. rank-deficient / over-ranked / zero-slice / '
             'per-core scales 2^+-100..200) x every pivot x stab; explicit-state BFS over sequences of single-step '
             'orthogonalisations (both directions, in place or not) with invariants on every state and bit-exact confluence '
             'of the step composition with orthogonalize(k)')
LEVEL_TEXT = ('all pivots of all leaves are checked for tensor preservation, orthonormal unfoldings, norm concentration, rank '
              'monotonicity and the (Z, p) contract; all single-step sequences to depth 3-4 are explored from every leaf, and '
              'the path orthogonalize(k) takes through that graph must give bit-identical cores')
LEVEL_NOTE = ('bounded: d <= 4, n <= 3, ranks <= 4, depth 3 (4 on d <= 3 thorough); tolerances 1e-11 (tensor), 1e-12 (Gram); '
              'LAPACK QR / RQ trusted')
RULE = ('leaves = product(shape, rank profile, pattern, scale profile); lattice: every pivot 0..d-1 x stab; graph: states = core '
        'bytes after a history of single steps, transitions = orthogonalize_left/right(i) for all valid i. Non-trivial: a state '
        'reached by >= 1 step, or a pivot call on a leaf with a rank that must be cut / a rank-deficient core.')
ASSUMPTIONS = ['products of two neighbouring core scales stay above the documented core_stab threshold 1e-100 (below it core_stab deliberately does not rescale)']


def build(c, seed):
    pat = c['pat']
    if pat in ('illc', 'illc3', 'illc5'):   # every slice nearly the same vector: unfoldings ill-conditioned from both sides (cond ~ 1e7 / 1e3 / 1e5:
        # the whole range matters - a shortcut that guards itself against cond > 1e6 is wrong in the band below its guard)
        eps_ = {'illc': 1e-7, 'illc3': 1e-3, 'illc5': 1e-5}[pat]
        base = space.tt(c['shape'], c['ranks'], 'gen', seed, tag=4)
        Y = []
        for G in base:
            v = G[:1, :, :1] * 0 + np.linspace(1.0, 2.0, G.shape[1]).reshape(1, -1, 1)
            Y.append(v + eps_ * G)
        return Y
    if pat == 'zslice':
        Y = space.tt(c['shape'], c['ranks'], 'gen', seed, tag=4)
        k = min(1, len(Y) - 1)
        Y[k][:, 0, :] = 0
    else:
        Y = space.tt(c['shape'], c['ranks'], pat, seed, tag=4)
    if c.get('scales'):
        for k, s in enumerate(c['scales']):
            Y[k] = Y[k] * 2.0 ** s
    return Y


def dense_mant(Y, scales):
    """Dense of the un-scaled cores and total exponent, so that huge / tiny scales stay representable."""
    if not scales:
        return ref.dense(Y), 0
    Z = [G * 2.0 ** (-s) for G, s in zip(Y, scales)]
    return ref.dense(Z), int(sum(scales))


def lgram(G):
    M = G.reshape(-1, G.shape[2], order='F')
    return np.abs(M.T @ M - np.eye(M.shape[1])).max()


def rgram(G):
    M = G.reshape(G.shape[0], -1, order='F')
    return np.abs(M @ M.T - np.eye(M.shape[0])).max()


def check_pivots(c):
    res = Res()
    seed = c.get('seed', 0)
    Y = build(c, seed)
    Yb = ref.core_bytes(Y)
    d = len(Y)
    shape = c['shape']
    D, E = dense_mant(Y, c.get('scales'))
    nD = float(np.linalg.norm(D))
    nB = float(np.linalg.norm(ref.dense_abs([G * 2.0 ** (-(c.get('scales') or [0] * d)[k]) for k, G in enumerate(Y)])))    # magnitude before cancellation
    rin = [G.shape[2] for G in Y[:-1]]
    tags = ['pat=' + c['pat'], 'scaled' if c.get('scales') else 'unscaled']
    deficient = c['pat'] in ('dup', 'zslice', 'zero') or any(rin[k] > min(np.prod(shape[:k + 1]), np.prod(shape[k + 1:])) for k in range(d - 1))
    for k in range(d):
        for stab in (False, True):
            res.ev()
            case = dict(c, k=k, stab=stab)
            with warnings.catch_warnings():
                warnings.simplefilter('ignore')
                out = teneva.orthogonalize(Y, k, use_stab=stab)
            res.check(ref.core_bytes(Y) == Yb, 'input_untouched', case, 'argument modified', tags)
            if stab:
                good = isinstance(out, tuple) and len(out) == 2 and isinstance(out[0], list) and float(out[1]) == int(out[1])
                if not res.check(good, 'stab.pair', case, lambda: 'stabilised result is not (Z, integer p): %r' % (type(out),), tags):
                    continue
                Z, p = out[0], int(out[1])
            else:
                Z, p = out, 0
            why = ref.wellformed(Z, shape)
            if not res.check(why is None and ref.finite(Z), 'wellformed', case, lambda: str(why), tags):
                continue
            res.check(all(not np.shares_memory(a, b) for a in Z for b in Y), 'fresh', case, 'result aliases the argument', tags)
            # same tensor: Z * 2^p == D * 2^E
            Dz = ref.dense(Z)
            sh = p - E
            if abs(sh) < 1000:
                dev = float(np.linalg.norm(Dz * 2.0 ** sh - D))
                res.check(dev <= 1e-11 * nD + 1e-13 * nB, 'same', case,
                          lambda: 'tensor changed: |Z*2^p - Y| = %.3e, |Y| = %.3e' % (dev, nD), tags + ['same'])
            else:
                res.check(nD == 0, 'same', case, 'exponent off by more than 2^1000', tags + ['same'])
            for j in range(k):
                g = lgram(Z[j])
                res.check(g <= 1e-12, 'left', case, lambda: 'core %d left of the pivot: |G^T G - I| = %.2e' % (j, g), tags + ['orth'])
            for j in range(k + 1, d):
                g = rgram(Z[j])
                res.check(g <= 1e-12, 'right', case, lambda: 'core %d right of the pivot: |G G^T - I| = %.2e' % (j, g), tags + ['orth'])
            mxk = float(np.abs(Z[k]).max())
            npv = float(np.linalg.norm(Z[k] / mxk)) * mxk if mxk > 0 else 0.0
            if abs(sh) < 1000:
                res.check(abs(npv * 2.0 ** sh - nD) <= 1e-11 * nD + 1e-13 * nB, 'norm', case,
                          lambda: 'pivot core norm %.6e * 2^%d vs tensor norm %.6e' % (npv, sh, nD), tags)
            rz = [G.shape[2] for G in Z[:-1]]
            cap = [min(int(np.prod(shape[:j + 1])), int(np.prod(shape[j + 1:]))) for j in range(d - 1)]
            okr = all(a <= b for a, b in zip(rz, rin))
            # bonds left of the pivot are cut by what the left part can carry, right of it by the right part
            for j in range(d - 1):
                lim = int(np.prod(shape[:j + 1])) if j < k else int(np.prod(shape[j + 1:]))
                okr = okr and rz[j] <= max(lim, 1)
            res.check(okr, 'ranks', case, lambda: 'ranks %s from %s (pivot %d)' % (rz, rin, k), tags)
            if stab and nD > 1e-10 * nB:
                mx = float(np.abs(Z[k]).max())
                # [1, 2) up to the rounding of floor(log2(.)) at a power-of-two boundary (1.9999999999999998 -> mantissa 1 - 1ulp)
                res.check(1.0 - 1e-12 <= mx <= 2.0 or d == 1, 'stab.range', case,
                          lambda: 'max modulus of the pivot core %.17g not in [1, 2)' % mx, tags + ['stab'])
                res.check(all(np.abs(G).max() <= 2.0 * max(1.0, np.sqrt(G.shape[0] * G.shape[1])) for G in Z), 'stab.moderate', case,
                          'entries of Z are not of moderate size', tags + ['stab'])
            if deficient or any(a < b for a, b in zip(rz, rin)):
                res.nt((c['shape'], c['ranks'], c['pat'], c.get('scales'), k, stab))
            res.outcome(tuple(rz))
    # a pivot given as a NumPy integer (np.argmax, np.arange, an index array entry) is the same pivot
    for kt in (np.int64, np.int32, np.intp, np.uint8):
        for k in sorted({0, d - 1, d // 2}):
            res.ev()
            case = dict(c, k=k, ktype=kt.__name__)
            try:
                with warnings.catch_warnings():
                    warnings.simplefilter('ignore')
                    A1 = teneva.orthogonalize(Y, kt(k))
                    A0 = teneva.orthogonalize(Y, k)
                res.check(ref.core_bytes(A1) == ref.core_bytes(A0), 'pivot.numpy_int', case, 'a NumPy-integer pivot gives a different result than the Python int', tags)
                if d >= 2:
                    i = min(max(k, 0), d - 2)
                    L1 = teneva.orthogonalize_left(Y, kt(i))
                    L0 = teneva.orthogonalize_left(Y, i)
                    R1 = teneva.orthogonalize_right(Y, kt(i + 1))
                    R0 = teneva.orthogonalize_right(Y, i + 1)
                    res.check(ref.core_bytes(L1) == ref.core_bytes(L0) and ref.core_bytes(R1) == ref.core_bytes(R0), 'pivot.numpy_int.step', case,
                              'a NumPy-integer step number gives a different result', tags)
            except Exception as ex:
                res.fail('pivot.numpy_int', case, 'a valid pivot of type %s was rejected: %s' % (kt.__name__, type(ex).__name__), tags)
    for k in list(range(-d, 0)) + [d, d + 1]:
        for stab in (False, True):
            res.ev()
            try:
                teneva.orthogonalize(Y, k, use_stab=stab)
                got = None
            except ValueError:
                got = 'ValueError'
            except Exception as ex:
                got = type(ex).__name__
            res.check(got == 'ValueError', 'reject', dict(c, k=k, stab=stab), lambda: 'pivot %d gave %r' % (k, got), tags)
    return res


def _step(Z, mv, inplace):
    side, i = mv
    fn = teneva.orthogonalize_left if side == 'L' else teneva.orthogonalize_right
    with warnings.catch_warnings():
        warnings.simplefilter('ignore')
        return fn(Z, i, inplace=inplace)


def check_graph(c):
    res = Res()
    seed = c.get('seed', 0)
    Y0 = build(c, seed)
    d = len(Y0)
    shape = c['shape']
    D, E = dense_mant(Y0, c.get('scales'))
    nD = float(np.linalg.norm(D))
    nB = float(np.linalg.norm(ref.dense_abs([G * 2.0 ** (-(c.get('scales') or [0] * d)[k]) for k, G in enumerate(Y0)])))
    scl = 2.0 ** (-E)
    depth = c['depth']
    tags = ['pat=' + c['pat']]
    moves = [('L', i) for i in range(d - 1)] + [('R', i) for i in range(1, d)]
    seen = {digest(ref.core_bytes(Y0)): []}
    frontier = [[]]

    def replay(hist):
        Z = [G.copy() for G in Y0]
        for mv in hist:
            Z = _step(Z, mv, False)
        return Z

    while frontier:
        hist = frontier.pop(0)
        S = replay(hist)
        for mv in moves:
            for inplace in (False, True):
                res.ev()
                case = dict(c, hist=[list(h) for h in hist], move=list(mv), inplace=inplace)
                A = [G.copy() for G in S]
                ids = [id(G) for G in A]
                Ab = [G.tobytes() for G in A]
                Z = _step(A, mv, inplace)
                res.tr()
                side, i = mv
                pair = (i, i + 1) if side == 'L' else (i - 1, i)
                if inplace:
                    res.check(Z is A, 'inplace.same_list', case, 'in-place call returned a different list', tags)
                    untouched = all(id(A[j]) == ids[j] and A[j].tobytes() == Ab[j] for j in range(d) if j not in pair)
                    res.check(untouched, 'inplace.only_two', case, 'in-place step changed a core other than the two adjacent ones', tags)
                else:
                    res.check(Z is not A and all(id(A[j]) == ids[j] and A[j].tobytes() == Ab[j] for j in range(d)), 'copy.untouched', case,
                              'argument changed by a non-in-place step', tags)
                    res.check(all(not np.shares_memory(a, b) for a in Z for b in A), 'copy.fresh', case, 'result aliases the argument', tags)
                why = ref.wellformed(Z, shape)
                if not res.check(why is None and ref.finite(Z), 'wellformed', case, lambda: str(why), tags):
                    continue
                dev = float(np.linalg.norm(ref.dense(Z) * scl - D)) if abs(E) < 1000 else 0.0
                res.check(dev <= (1e-11 * nD + 1e-13 * nB) * (1 + len(hist)), 'same', case, lambda: 'tensor changed by %.3e' % dev, tags + ['same'])
                g = lgram(Z[i]) if side == 'L' else rgram(Z[i])
                res.check(g <= 1e-12, 'step.orth', case, lambda: 'processed core not orthonormal: %.2e' % g, tags + ['orth'])
                if not inplace:
                    key = digest(ref.core_bytes(Z))
                    if key not in seen:
                        seen[key] = hist + [mv]
                        res.state(key)
                        res.nt(key)
                        if len(hist) + 1 < depth:
                            frontier.append(hist + [mv])
        # invalid step numbers leave the state unchanged
        for mv in (('L', -1), ('L', d - 1), ('L', d), ('R', 0), ('R', d), ('R', -1), ('L', None), ('R', None)):
            for inplace in (False, True):
                res.ev()
                A = [G.copy() for G in S]
                Ab = ref.core_bytes(A)
                try:
                    _step(A, mv, inplace)
                    got = None
                except ValueError:
                    got = 'ValueError'
                except Exception as ex:
                    got = type(ex).__name__
                res.check(got == 'ValueError' and ref.core_bytes(A) == Ab, 'step.reject', dict(c, hist=[list(h) for h in hist], move=list(mv)),
                          lambda: 'invalid step %s gave %r' % (mv, got), tags)
    # confluence: orthogonalize(k) is a path in this graph
    for k in range(d):
        res.ev()
        Z = [G.copy() for G in Y0]
        for i in range(k):
            Z = _step(Z, ('L', i), False)
        for i in range(d - 1, k, -1):
            Z = _step(Z, ('R', i), False)
        W = teneva.orthogonalize(Y0, k)
        # the copying steps hand C-ordered copies to BLAS where the in-place path hands F-ordered views: same
        # arithmetic, possibly different rounding, so this path is compared to rounding accuracy only
        dv = max(np.abs(a - b).max() / max(np.abs(b).max(), 1e-300) if a.shape == b.shape else 1.0 for a, b in zip(Z, W))
        res.check(dv <= 1e-12, 'confluence', dict(c, k=k),
                  lambda: 'orthogonalize(k) differs from the composition of its (copying) single steps by %.2e' % dv, tags)
        Zi = [G.copy() for G in Y0]
        for i in range(k):
            _step(Zi, ('L', i), True)
        for i in range(d - 1, k, -1):
            _step(Zi, ('R', i), True)
        res.check(ref.core_bytes(W) == ref.core_bytes(Zi), 'confluence.inplace', dict(c, k=k), 'in-place composition differs', tags)
    res.outcome('states=%d' % len(seen))
    return res


def check_shared(c):
    """The same ndarray object at several positions of the list (a periodic train), Fortran-ordered or C-ordered:
    an in-place single step may replace slots i and its neighbour but must not touch the shared object itself."""
    res = Res()
    seed = c.get('seed', 0)
    r, n, dd = c['r'], c['n'], c['d']
    Gm = space.core('gen', r, n, r, 1, seed, tag=44)
    A0 = space.core('gen', 1, n, r, 0, seed, tag=44)
    B0 = space.core('gen', r, n, 1, 2, seed, tag=44)
    for order in ('F', 'C'):
        for side in ('L', 'R'):
            for i in (range(0, dd - 1) if side == 'L' else range(1, dd)):
                for inplace in (True, False):
                    res.ev()
                    G = np.array(Gm, order=order)
                    Y = [np.array(A0, order=order)] + [G] * (dd - 2) + [np.array(B0, order=order)]
                    D = ref.dense(Y)
                    gb = G.tobytes()
                    case = dict(c, order=order, move=[side, i], inplace=inplace)
                    Z = _step(Y, (side, i), inplace)
                    res.tr()
                    res.check(G.tobytes() == gb, 'shared.object_untouched', case,
                              'a core object shared by several positions was modified by a single step', ['shared'])
                    dev = float(np.linalg.norm(ref.dense(Z) - D)) / float(np.linalg.norm(D))
                    res.check(dev <= 1e-11, 'shared.same', case, lambda: 'tensor changed by relative %.3e' % dev, ['shared', 'same'])
                    res.state(digest(ref.core_bytes(Z)))
                    res.nt((r, n, dd, order, side, i, inplace))
            for k in range(dd):
                res.ev()
                G = np.array(Gm, order=order)
                Y = [np.array(A0, order=order)] + [G] * (dd - 2) + [np.array(B0, order=order)]
                D = ref.dense(Y)
                gb = G.tobytes()
                W = teneva.orthogonalize(Y, k)
                dev = float(np.linalg.norm(ref.dense(W) - D)) / float(np.linalg.norm(D))
                res.check(G.tobytes() == gb and dev <= 1e-11, 'shared.orthogonalize', dict(c, order=order, k=k),
                          lambda: 'orthogonalize on a periodic train: shared core modified or tensor changed (%.3e)' % dev, ['shared'])
    return res


CHECKERS = {'pivots': check_pivots, 'graph': check_graph, 'shared': check_shared}


def _leaves(tier, seed):
    out = []
    if tier == 'quick':
        plan = [(2, [1, 2, 3], [1, 2, 4]), (3, [1, 2, 3], [1, 2, 4]), (4, [1, 2], [1, 2, 4])]
        pats = ['intA', 'gen', 'dup', 'zslice']
    else:
        plan = [(2, [1, 2, 3, 4], [1, 2, 3, 4]), (3, [1, 2, 3], [1, 2, 3, 4]), (4, [1, 2, 3], [1, 2, 4])]
        pats = ['intA', 'intB', 'gen', 'dup', 'zslice', 'zero', 'ones']
    for d, ns, rs in plan:
        for sh in space.shapes([d], ns):
            for rk in space.rank_profiles(d, rs):
                for pat in pats:
                    out.append(dict(shape=sh, ranks=rk, pat=pat, seed=seed))
                for scales in ([200] + [0] * (d - 1), [0] * (d - 1) + [-200], [200, -200] + [0] * (d - 2), [-100] * d,
                               [100] * d):
                    if scales is not None and abs(sum(scales)) <= 900 and (tier != 'quick' or d <= 3):
                        out.append(dict(shape=sh, ranks=rk, pat='gen', scales=scales, seed=seed))
    for sh, rk in (([2, 150], [1, 2, 1]), ([150, 2], [1, 3, 1]), ([3, 40, 2], [1, 3, 2, 1]), ([2] * 8, [1, 2, 3, 4, 4, 3, 2, 2, 1]), ([1, 60, 1], [1, 4, 4, 1])):
        for pat in ('gen', 'dup', 'zslice', 'illc', 'illc3', 'illc5'):
            out.append(dict(shape=sh, ranks=rk, pat=pat, seed=seed))
    for sh, rk in (([3, 80, 2], [1, 3, 2, 1]), ([2, 100, 3], [1, 2, 3, 1]), ([3, 3, 3], [1, 3, 3, 1]), ([2, 3, 2], [1, 2, 2, 1])):
        for pat in ('illc', 'illc3', 'illc5', 'gen'):
            out.append(dict(shape=sh, ranks=rk, pat=pat, seed=seed))
    return out


def strata(tier, seed):
    ls = _leaves(tier, seed)
    yield Stratum('every pivot x stab', ls, 'pivots', size=len(ls), chunk=16, bounds={'leaves': len(ls)})
    gl = [dict(l, depth=(3 if tier == 'quick' else (4 if len(l['shape']) <= 3 else 3))) for l in ls
          if not l.get('scales') and l['pat'] in ('gen', 'dup', 'intA') and max(l['shape']) <= 4 and len(l['shape']) <= 4
          and (tier != 'quick' or max(l['ranks']) <= 2 or len(l['shape']) == 2)]
    sh = [dict(r=r, n=n, d=dd, seed=seed) for r in (1, 2, 3) for n in (2, 3) for dd in (3, 4, 5)]
    yield Stratum('periodic trains with a shared core object', sh, 'shared', size=len(sh), chunk=2, bounds={'orders': ['F', 'C']})
    yield Stratum('single-step graph', gl, 'graph', size=len(gl), chunk=4, bounds={'depth': sorted({g['depth'] for g in gl})})
