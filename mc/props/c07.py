"""C07 - TT-ALS (index version and functional version).

Mode L over sample layouts (every covering multiset of grid points up to a size, and
for each EVERY ordering) + mode G over sweeps (states = cores after each sweep, observed
through the callback / through runs with nswp = 1, 2, ...)."""
import itertools
import warnings

import numpy as np
import teneva

from mc import ref, space
from mc.engine import Res, Stratum, digest

ID = 'C07'
REGISTERED = True
LEVEL = 'model_checking'
TECHNIQUE = ('exhaustive enumeration of all covering sample multisets of small grids and all their orderings; '
             'state graph over sweeps (callback snapshots) with invariants: descent of the regularised objective, '
             'vanishing gradient of the last-updated core, restart confluence (a+b sweeps = a sweeps, restart, b sweeps), '
             'order independence, callback / stop contract')
LEVEL_TEXT = ('every sample layout of the bounded space (all multisets, duplicates, a slice covered by a single sample at '
              'every position) is executed on the real als / als_func; each sweep state is checked against an independent '
              'objective and gradient computed from dense partial products; different paths to the same state (restart, '
              'permuted samples) must agree')
LEVEL_NOTE = ('bounded: grids [2,2],[2,3],[2,2,2],[3,2,2], multisets of size <= 4 (5), initial ranks 1-3, 3 sweeps, '
              'lamb in {1e-3, 0.1, 10}; lamb > 0 only (the quantifier of the property); values: index polynomial plus '
              'per-occurrence term; tolerances 1e-8 relative')
RULE = ('layouts = all multisets of grid points of size <= M that cover every slice; per layout: configurations '
        '(initial rank, lamb, weights) and ALL distinct orderings of the samples. States = cores after each sweep '
        '(digest of bytes), transitions = sweeps + restarts. Non-trivial: layout with a slice covered by exactly one sample '
        'or with a duplicated index (distinct = multiset x configuration).')
ASSUMPTIONS = ['lamb > 0', 'e=None so that only nswp / cb stop the constant-rank runs (the e-stop is exercised separately)',
               'als_func is driven with thr_pow=0 (no mode-size pruning) and equal mode sizes']

DOC_STOPS = ('nswp', 'e', 'e_vld', 'cb')


def _tol(lamb):
    """Agreement of two mathematically equal ALS runs: rounding (different summation order) amplified by the conditioning
    of the ridge systems, which grows like 1/lamb (observed up to 4e-6 at lamb = 1e-3 on under-determined layouts); a real
    order / restart dependence is of order 1e-1."""
    return min(1e-3, max(1e-8, 1e-7 / lamb))


def yvals(I, occ):
    I = np.asarray(I, dtype=float)
    w = np.arange(1, I.shape[1] + 1)
    return 1.0 + I @ w + 0.5 * np.prod(I + 1, axis=1) - 0.25 * np.asarray(occ)


def objective(Y, I, y, lamb, w):
    v = np.array([ref.dense(Y)[tuple(i)] for i in I])
    ww = np.ones(len(y)) if w is None else w
    return float(np.sum(ww * (v - y) ** 2) + lamb * sum(np.sum(G ** 2) for G in Y))


def grad_core(Y, k, I, y, lamb, w):
    """Gradient of the objective w.r.t. core k, and a scale for the tolerance (dense partial products)."""
    d = len(Y)
    ww = np.ones(len(y)) if w is None else w
    g = 2 * lamb * Y[k]
    scale = 2 * lamb * np.abs(Y[k]).max() + 1e-300
    g = g.copy()
    for s, i in enumerate(I):
        L = np.ones((1, 1))
        for j in range(k):
            L = L @ Y[j][:, i[j], :]
        R = np.ones((1, 1))
        for j in range(d - 1, k, -1):
            R = Y[j][:, i[j], :] @ R
        val = (L @ Y[k][:, i[k], :] @ R)[0, 0]
        t = 2 * ww[s] * (val - y[s]) * np.outer(L[0], R[:, 0])
        g[:, i[k], :] += t
        scale += np.abs(t).max()
    return g, scale


def _als(I, y, Y0, nswp, lamb, w, cb=None, **kw):
    info = {}
    with warnings.catch_warnings():
        warnings.simplefilter('ignore')
        Y = teneva.als(np.array(I), np.array(y), Y0, nswp=nswp, e=kw.pop('e', None), info=info, lamb=lamb, w=w, cb=cb, **kw)
    return Y, info


class Snap:
    def __init__(self, true_at=None):
        self.Y = []
        self.true_at = true_at

    def __call__(self, Y, info, opts):
        self.Y.append([G.copy() for G in Y])
        if self.true_at is not None and len(self.Y) == self.true_at:
            return True


def _rel(A, B):
    a, b = ref.dense(A), ref.dense(B)
    return float(np.linalg.norm(a - b) / max(np.linalg.norm(b), 1e-300))


def check_layout(c):
    res = Res()
    seed = c.get('seed', 0)
    shape = c['shape']
    d = len(shape)
    pts = [tuple(p) for p in c['points']]          # canonical (sorted) multiset
    m = len(pts)
    occ = [pts[:j].count(p) for j, p in enumerate(pts)]
    y = yvals(pts, occ)
    N = c['N']
    single = any(sum(1 for p in pts if p[k] == v) == 1 for k in range(d) for v in range(shape[k]))
    dup = len(set(pts)) < m
    if c.get('perm_mode') == 'few':       # large sample sets: identity, reversal, rotation, stride permutation
        ident = tuple(range(m))
        stride = tuple(sorted(range(m), key=lambda j: ((j * 7) % m, j)))
        perms = [ident, ident[::-1], ident[7 % m:] + ident[:7 % m], stride]
    else:
        perms = sorted(set(itertools.permutations(range(m))))
    for (r0, lamb, wk) in c['configs']:
        Y0 = space.tt(shape, [1] + [r0] * (d - 1) + [1], 'gen', seed, tag=41)
        w = None if not wk else np.array([(1.0, 0.5, 2.0, 0.25, 4.0, 1.0)[j % 6] for j in range(m)])
        if wk == 2:        # every sample of slice 0 of mode 1 (and the first sample) has weight exactly zero: the minimiser of that slice is 0
            w = np.array([0.0 if (p[1] == 0 or j == 0) else w[j] for j, p in enumerate(pts)])
        cfg = dict(shape=shape, points=c['points'], N=N, configs=[[r0, lamb, wk]], seed=seed, perm_mode=c.get('perm_mode'))
        tags = ['single-sample-slice' if single else 'multi', 'r0=%d' % r0]
        res.ev()
        snap = Snap()
        Y, info = _als(pts, y, Y0, N, lamb, w, cb=snap)
        res.tr(N)
        for S in [Y0] + snap.Y:
            res.state(digest(ref.core_bytes(S)))
        # shape / ranks / info
        res.check(ref.wellformed(Y, shape) is None and [G.shape for G in Y] == [G.shape for G in Y0],
                  'shape_ranks', cfg, lambda: 'core shapes %s vs initial %s' % ([G.shape for G in Y], [G.shape for G in Y0]), tags)
        res.check(info.get('nswp') == N and len(snap.Y) == N and info.get('stop') == 'nswp', 'info', cfg,
                  lambda: 'info nswp=%r stop=%r, %d callback calls, requested %d' % (info.get('nswp'), info.get('stop'), len(snap.Y), N), tags)
        res.check(_rel(snap.Y[-1], Y) == 0 if snap.Y else False, 'cb.last_state', cfg, 'callback state differs from the result', tags)
        # the observer must not matter: without the harness's callback the same tensor and the same report come back
        Yq, iq = _als(pts, y, Y0, N, lamb, w)
        dk = [k for k in ('nswp', 'stop', 'e', 'e_vld') if repr(iq.get(k)) != repr(info.get(k))]
        res.check(ref.core_bytes(Yq) == ref.core_bytes(Y) and not dk, 'no_callback.same', cfg,
                  lambda: 'without a callback the run differs (info fields %s)' % dk, tags)
        # descent
        Js = [objective(S, pts, y, lamb, w) for S in [Y0] + snap.Y]
        for s in range(len(Js) - 1):
            res.check(Js[s + 1] <= Js[s] * (1 + 1e-10) + 1e-13, 'descent', cfg,
                      lambda: 'objective rose from %.12g to %.12g at sweep %d' % (Js[s], Js[s + 1], s + 1), tags)
        # optimality of the last-updated core (core 1) after every sweep
        for s, S in enumerate(snap.Y):
            g, sc = grad_core(S, 1, pts, y, lamb, w)
            has = [v for v in range(shape[1]) if any(p[1] == v for p in pts)]
            gm = max(np.abs(g[:, v, :]).max() for v in has)
            res.check(gm <= 1e-8 * sc, 'optimal', cfg,
                      lambda: 'gradient of the objective w.r.t. the last-updated core is %.3e (scale %.3e) after sweep %d' % (gm, sc, s + 1),
                      tags + ['optimal'])
        # restart confluence
        for a in range(1, N):
            res.ev()
            Z, _ = _als(pts, y, snap.Y[a - 1], N - a, lamb, w)
            res.tr(N - a)
            rr = _rel(Z, Y)
            res.check(rr <= _tol(lamb), 'restart', cfg, lambda: '%d+%d sweeps differ from %d sweeps by %.3e' % (a, N - a, N, rr), tags)
        # order independence over EVERY ordering
        if c.get('perms', True):
            for pm in perms[1:]:
                res.ev()
                P = [pts[j] for j in pm]
                yp = y[list(pm)]
                wp = None if w is None else w[list(pm)]
                Z, _ = _als(P, yp, Y0, N, lamb, wp)
                res.tr(N)
                rr = _rel(Z, Y)
                res.check(rr <= _tol(lamb), 'order', cfg,
                          lambda: 'ordering %s changes the result by %.3e' % (list(pm), rr), tags + ['order'])
                g, sc = grad_core(Z, 1, P, yp, lamb, wp)
                has = [v for v in range(shape[1]) if any(p[1] == v for p in P)]
                gm = max(np.abs(g[:, v, :]).max() for v in has)
                res.check(gm <= 1e-8 * sc, 'optimal', dict(cfg, perm=list(pm)),
                          lambda: 'ordering %s: gradient %.3e (scale %.3e)' % (list(pm), gm, sc), tags + ['optimal'])
        # callback stop at every sweep
        for s in range(1, N + 1):
            res.ev()
            sn = Snap(true_at=s)
            Z, inf = _als(pts, y, Y0, N + 2, lamb, w, cb=sn)
            res.check(inf.get('stop') == 'cb' and inf.get('nswp') == s and len(sn.Y) == s and _rel(Z, snap.Y[s - 1]) <= 1e-12,
                      'cb', cfg, lambda: 'callback True at sweep %d: stop=%r nswp=%r' % (s, inf.get('stop'), inf.get('nswp')), tags)
        # e-stop contract: the convergence value of sweep s is the relative change ||Y_s - Y_(s-1)|| / ||Y_(s-1)|| of the dense tensors
        # (recomputed here from the callback states); thresholds 20 % above / below each sweep's value must stop exactly at the first
        # sweep whose change is <= e, else by nswp
        states = [Y0] + snap.Y
        deltas = [_rel(states[s], states[s - 1]) for s in range(1, len(states))]
        # (the library's value goes through ||A - B||^2 by inner products: its noise floor is about sqrt(u) ~ 1e-8 absolute, so only
        # changes above 1e-4 are judged, to 1e-3 relative)
        # (and a previous state below 1e-60 in norm - strong regularisation shrinks the tensor super-exponentially - is where the library's
        # stabilisation documents that it no longer rescales and reports the sentinel -1)
        prev_ok = float(np.linalg.norm(ref.dense(states[-2]))) > 1e-60
        res.check(not prev_ok or deltas[-1] < 1e-4 or abs(info.get('e', -9) - deltas[-1]) <= 1e-3 * deltas[-1], 'info.e', cfg,
                  lambda: "info['e']=%r, relative change of the last sweep %r" % (info.get('e'), deltas[-1]), tags)
        defined = all(float(np.linalg.norm(ref.dense(S))) > 1e-60 for S in states[:-1])       # the relative change against a zero tensor is undefined
        for e_thr in (sorted({f * dl for dl in deltas for f in (1.2, 1 / 1.2) if dl > 1e-4}) if defined else []):
            if any(abs(dl / e_thr - 1) < 0.1 for dl in deltas):
                continue
            res.ev()
            want_s = next((s + 1 for s, dl in enumerate(deltas) if dl <= e_thr), None)
            Z, inf = _als(pts, y, Y0, N, lamb, w, e=e_thr)
            ws, wr = (want_s, 'e') if want_s is not None else (N, 'nswp')
            res.check(inf.get('nswp') == ws and inf.get('stop') == wr and _rel(Z, states[ws]) <= 1e-12, 'e_stop', dict(cfg, e=e_thr),
                      lambda: 'e=%.6g with sweep changes %s: stop=%r nswp=%r, expected %r at sweep %d' % (
                          e_thr, ['%.4g' % x for x in deltas], inf.get('stop'), inf.get('nswp'), wr, ws), tags + ['e_stop'])
        # default e: documented stop, nswp consistent
        res.ev()
        sn = Snap()
        info2 = {}
        with warnings.catch_warnings():
            warnings.simplefilter('ignore')
            Z = teneva.als(np.array(pts), y, Y0, nswp=N, info=info2, lamb=lamb, w=w, cb=sn)
        res.check(info2.get('stop') in DOC_STOPS and info2.get('nswp') == len(sn.Y) <= N, 'info.default_e', cfg,
                  lambda: 'stop=%r nswp=%r cb calls=%d' % (info2.get('stop'), info2.get('nswp'), len(sn.Y)), tags)
        res.outcome(info2.get('stop'))
        if single or dup:
            res.nt((shape, c['points'], r0, lamb, wk))
    # rank-adaptive mode
    if d >= 3:
        for r0 in (1, 2):
            for r in (1, 2, 3):
                if r0 > r:
                    continue
                for stab in (False, True):
                    res.ev()
                    cfg = dict(shape=shape, points=c['points'], N=N, configs=[], adaptive=[r0, r, stab], seed=seed)
                    Y0 = space.tt(shape, [1] + [r0] * (d - 1) + [1], 'gen', seed, tag=41)
                    try:
                        Z, inf = _als(pts, y, Y0, 2, 1e-3, None, r=r, use_stab=stab)
                    except Exception as ex:
                        res.fail('adaptive.raised', cfg, '%s: %s' % (type(ex).__name__, str(ex)[:150]), ['adaptive'])
                        continue
                    why = ref.wellformed(Z, shape)
                    res.check(why is None and ref.finite(Z), 'adaptive.shape', cfg, lambda: str(why), ['adaptive'])
                    if why is None:
                        res.check(all(G.shape[2] <= r for G in Z[:-1]), 'adaptive.ranks', cfg,
                                  lambda: 'ranks %s exceed r=%d' % ([G.shape[2] for G in Z[:-1]], r), ['adaptive'])
                    res.check(inf.get('stop') in DOC_STOPS and inf.get('nswp') <= 2, 'adaptive.info', cfg, lambda: repr(inf), ['adaptive'])
    return res


def check_skip(c):
    """Layouts that leave a slice without data."""
    res = Res()
    seed = c.get('seed', 0)
    shape = c['shape']
    d = len(shape)
    pts = [tuple(p) for p in c['points']]
    y = yvals(pts, [0] * len(pts))
    Y0 = space.tt(shape, [1] + [2] * (d - 1) + [1], 'gen', seed, tag=41)
    res.ev()
    try:
        _als(pts, y, Y0, 2, 1e-3, None)
        got = None
    except ValueError:
        got = 'ValueError'
    except Exception as ex:
        got = type(ex).__name__
    res.check(got == 'ValueError', 'skip.reject', c, lambda: 'missing slice data gave %r' % (got,))
    res.ev()
    try:
        Z, inf = _als(pts, y, Y0, 2, 1e-3, None, allow_skip_cores=True)
    except Exception as ex:
        res.fail('skip.allow', c, 'allow_skip_cores raised %r' % (ex,))
        return res
    ok = ref.wellformed(Z, shape) is None
    res.check(ok, 'skip.shape', c, 'result malformed')
    if ok:
        for k in range(d):
            for v in range(shape[k]):
                if not any(p[k] == v for p in pts):
                    res.check(np.array_equal(Z[k][:, v, :], Y0[k][:, v, :]), 'skip.untouched', c,
                              lambda: 'slice %d of core %d has no data but changed' % (v, k))
        # the slices that do have data are fitted as usual: the last-updated core (core 1) is the minimiser on them, the objective descends
        if d >= 2:
            g, sc = grad_core(Z, 1, pts, y, 1e-3, None)
            has = [v for v in range(shape[1]) if any(p[1] == v for p in pts)]
            gm = max(np.abs(g[:, v, :]).max() for v in has)
            res.check(gm <= 1e-8 * sc, 'skip.optimal', c,
                      lambda: 'with a slice skipped, the gradient w.r.t. the last-updated core on the slices that have data is %.3e (scale %.3e)' % (gm, sc), ['optimal'])
            res.check(objective(Z, pts, y, 1e-3, None) <= objective(Y0, pts, y, 1e-3, None) * (1 + 1e-10) + 1e-13, 'skip.descent', c, 'objective rose with a slice skipped')
    res.nt(c['points'])
    return res


# ---------------------------------------------------------------------------------------------
# functional version

def _cheb(x, n):
    # coordinates outside the box are clipped onto it, as the library's own evaluator (poi_scale) does: that basis defines the objective
    return np.polynomial.chebyshev.chebvander(np.clip(np.asarray(x, dtype=float), -1.0, 1.0), n - 1)      # (m, n)


def fobjective(A, X, y, lamb):
    v = fvalues(A, X)
    return float(np.sum((v - y) ** 2) + lamb * sum(np.sum(G ** 2) for G in A))


def fvalues(A, X):
    out = []
    for x in X:
        Q = np.ones((1, 1))
        for k, G in enumerate(A):
            t = _cheb([x[k]], G.shape[1])[0]
            Q = Q @ np.einsum('rjq,j->rq', G, t)
        out.append(Q[0, 0])
    return np.array(out)


def fgrad_core1(A, X, y, lamb):
    d = len(A)
    k = 1
    g = 2 * lamb * A[k].copy()
    scale = 2 * lamb * np.abs(A[k]).max() + 1e-300
    for s, x in enumerate(X):
        L = np.ones((1, 1))
        for j in range(k):
            L = L @ np.einsum('rjq,j->rq', A[j], _cheb([x[j]], A[j].shape[1])[0])
        R = np.ones((1, 1))
        for j in range(d - 1, k, -1):
            R = np.einsum('rjq,j->rq', A[j], _cheb([x[j]], A[j].shape[1])[0]) @ R
        t1 = _cheb([x[k]], A[k].shape[1])[0]
        val = (L @ np.einsum('rjq,j->rq', A[k], t1) @ R)[0, 0]
        t = 2 * (val - y[s]) * np.einsum('a,j,b->ajb', L[0], t1, R[:, 0])
        g += t
        scale += np.abs(t).max()
    return g, scale


def _alsf(X, y, A0, nswp, lamb, e=None, **kw):
    info = {}
    with warnings.catch_warnings():
        warnings.simplefilter('ignore')
        A = teneva.als_func(np.array(X, dtype=float), np.array(y), A0, -1., 1., nswp=nswp, e=e, info=info,
                            lamb=lamb, thr_pow=0., **kw)
    return A, info


def check_func(c):
    res = Res()
    seed = c.get('seed', 0)
    shape = c['shape']          # grid the points are taken from (mapped to [-1,1])
    d = len(shape)
    n = c['n']
    pts = [tuple(p) for p in c['points']]
    m = len(pts)
    occ = [pts[:j].count(p) for j, p in enumerate(pts)]
    y = yvals(pts, occ)
    N = c['N']
    if c['where'] == 'nodes':
        X = np.array([[np.cos(np.pi * p[k] / max(shape[k] - 1, 1)) for k in range(d)] for p in pts])
    elif c['where'] == 'outside':          # some coordinates beyond the box on either side
        X = np.array([[-1.25 + 2.5 * p[k] / max(shape[k] - 1, 1) + 0.013 * k for k in range(d)] for p in pts])
    else:
        X = np.array([[-0.83 + 1.61 * p[k] / max(shape[k] - 1, 1) + 0.013 * k for k in range(d)] for p in pts])
    perms = sorted(set(itertools.permutations(range(m))))
    for (r0, lamb) in c['configs']:
        cfg = dict(c, configs=[[r0, lamb]])
        tags = ['als_func', 'r0=%d' % r0]
        A0 = space.tt([n] * d, [1] + [r0] * (d - 1) + [1], 'gen', seed, tag=43)
        traj = [A0]
        infos = []
        for s in range(1, N + 1):
            res.ev()
            A, inf = _alsf(X, y, A0, s, lamb)
            traj.append(A)
            infos.append(inf)
            res.tr()
            res.state(digest(ref.core_bytes(A)))
            res.check(inf.get('nswp') == s and inf.get('stop') == 'nswp', 'func.info', cfg,
                      lambda: 'requested %d sweeps: nswp=%r stop=%r' % (s, inf.get('nswp'), inf.get('stop')), tags)
        A = traj[-1]
        res.check(ref.wellformed(A, [n] * d) is None and [G.shape for G in A] == [G.shape for G in A0], 'func.shape_ranks', cfg,
                  lambda: 'core shapes %s' % ([G.shape for G in A],), tags)
        Js = [fobjective(S, X, y, lamb) for S in traj]
        for s in range(N):
            res.check(Js[s + 1] <= Js[s] * (1 + 1e-10) + 1e-13, 'func.descent', cfg,
                      lambda: 'objective rose from %.12g to %.12g at sweep %d' % (Js[s], Js[s + 1], s + 1), tags)
        for s, S in enumerate(traj[1:]):
            g, sc = fgrad_core1(S, X, y, lamb)
            res.check(np.abs(g).max() <= 1e-7 * sc, 'func.optimal', cfg,
                      lambda: 'gradient w.r.t. the last-updated core %.3e (scale %.3e) after sweep %d' % (np.abs(g).max(), sc, s + 1), tags)
        for a in range(1, N):
            res.ev()
            Z, _ = _alsf(X, y, traj[a], N - a, lamb)
            res.tr()
            rr = _relf(Z, A)
            res.check(rr <= 10 * _tol(lamb), 'func.restart', cfg, lambda: '%d+%d sweeps differ from %d by %.3e' % (a, N - a, N, rr), tags)
        for pm in perms[1:]:
            res.ev()
            Z, _ = _alsf(X[list(pm)], y[list(pm)], A0, N, lamb)
            rr = _relf(Z, A)
            res.check(rr <= 10 * _tol(lamb), 'func.order', cfg, lambda: 'ordering %s changes the result by %.3e' % (list(pm), rr), tags)
        res.ev()
        Z, inf = _alsf(X, y, A0, N, lamb, e=1e-16)
        res.check(inf.get('stop') in ('nswp', 'e', 'e_vld') and 1 <= inf.get('nswp') <= N, 'func.info.default_e', cfg, lambda: repr(inf), tags)
        res.nt((shape, c['points'], c['where'], n, r0, lamb))
    return res


def _relf(A, B):
    a = np.concatenate([G.ravel() for G in [ref.dense(A)]])
    b = np.concatenate([G.ravel() for G in [ref.dense(B)]])
    return float(np.linalg.norm(a - b) / max(np.linalg.norm(b), 1e-300))


def check_func_prune(c):
    """Functional ALS with mode-size pruning switched on (thr_pow > 0): the core updated last must still be the exact
    minimiser of the objective over the basis functions it kept."""
    res = Res()
    seed = c.get('seed', 0)
    d, n = c['d'], c['n']
    g = np.linspace(-0.93, 0.89, c['pts'])
    X = np.array(list(itertools.product(*[g + 0.013 * k for k in range(d)])))
    cheb = np.polynomial.chebyshev
    y = (1 + X[:, 0]) * (1 + 0.5 * X[:, 1]) + 0.3 * X[:, -1]
    for k in range(d):
        cf = np.zeros(n)
        cf[n - 1] = c['weak']
        y = y + (k + 1) * cheb.chebval(X[:, k], cf)
    for (rk, lamb, thr) in c['configs']:
        A0 = space.tt([n] * d, [1] + list(rk) + [1], 'gen', seed, tag=45)
        for N in (1, 2, 3):
            res.ev()
            cfg = dict(c, configs=[[list(rk), lamb, thr]], N=N)
            info = {}
            with warnings.catch_warnings():
                warnings.simplefilter('ignore')
                A = teneva.als_func(X, y, A0, -1., 1., nswp=N, e=None, info=info, lamb=lamb, thr_pow=thr)
            res.tr()
            res.state(digest(ref.core_bytes(A)))
            okw = ref.wellformed(A) is None and ref.finite(A) and all(1 <= G.shape[1] <= n for G in A) and \
                [G.shape[2] for G in A[:-1]] == list(rk)
            if not res.check(okw, 'prune.shape', cfg, lambda: 'core shapes %s' % ([G.shape for G in A],), ['prune']):
                continue
            res.check(info.get('nswp') == N and info.get('stop') == 'nswp', 'prune.info', cfg, lambda: repr(info), ['prune'])
            gcore, sc = fgrad_core1(A, X, y, lamb)
            res.check(np.abs(gcore).max() <= 1e-7 * sc, 'prune.optimal', cfg,
                      lambda: 'mode sizes %s: gradient w.r.t. the last-updated core %.3e (scale %.3e) after %d sweeps' % (
                          [G.shape[1] for G in A], np.abs(gcore).max(), sc, N), ['prune', 'optimal'])
            pruned = any(G.shape[1] < n for G in A)
            res.outcome('pruned' if pruned else 'full')
            if pruned:
                res.nt((d, n, c['pts'], c['weak'], tuple(rk), lamb, thr, N))
    return res


CHECKERS = {'layout': check_layout, 'skip': check_skip, 'func': check_func, 'func_prune': check_func_prune}


def multisets(shape, M, cover=True):
    pts = space.all_indices(shape)
    d = len(shape)
    out = []
    for m in range(1, M + 1):
        for ms in itertools.combinations_with_replacement(pts, m):
            cov = all(len({p[k] for p in ms}) == shape[k] for k in range(d))
            if cov == cover:
                out.append([list(p) for p in ms])
    return out


def strata(tier, seed):
    if tier == 'quick':
        plan = [([2, 2], 4), ([2, 3], 4), ([2, 2, 2], 3), ([3, 2, 2], 3)]
        cfgs_full = [[2, 1e-3, 0], [1, 0.1, 1]]
        cfgs_rest = [[3, 10.0, 0], [2, 0.1, 1], [2, 1e-3, 2]]
    else:
        plan = [([2, 2], 6), ([2, 3], 5), ([3, 3], 4), ([2, 2, 2], 4), ([3, 2, 2], 4), ([2, 3, 2], 4), ([2, 2, 2, 2], 3)]
        cfgs_full = [[r0, lamb, wk] for r0 in (1, 2, 3) for lamb in (1e-3, 0.1, 10.0) for wk in (0, 1, 2)]
        cfgs_rest = []
    lay = []
    for shape, M in plan:
        for ms in multisets(shape, M):
            if len(ms) > 5:
                lay.append(dict(shape=shape, points=ms, N=3, configs=cfgs_full[:2], perms=True, seed=seed))
            else:
                lay.append(dict(shape=shape, points=ms, N=3, configs=cfgs_full, perms=True, seed=seed))
                if cfgs_rest:
                    lay.append(dict(shape=shape, points=ms, N=2, configs=cfgs_rest, perms=False, seed=seed))
    for shape in ([4, 3, 5], [6, 7], [3, 2, 2, 3]):
        g = [list(p) for p in space.all_indices(shape)]
        sets = [g, g + g[::7], [p for j, p in enumerate(g) if j % 3 != 1] + [g[1]]]
        for pts in sets:
            cov = all(len({p[k] for p in pts}) == shape[k] for k in range(len(shape)))
            if cov:
                lay.append(dict(shape=shape, points=sorted(pts), N=3, configs=[[2, 1e-3, 0], [3, 0.1, 1], [2, 1e-3, 2]], perms=True, perm_mode='few', seed=seed))
    yield Stratum('als-layouts', lay, 'layout', size=len(lay), chunk=4,
                  bounds={'grids': [p[0] for p in plan], 'multiset size': [p[1] for p in plan], 'sweeps': 3,
                          'orderings': 'all distinct permutations'})
    sk = []
    for shape, M in plan[:4]:
        for ms in multisets(shape, min(M, 3), cover=False):
            sk.append(dict(shape=shape, points=ms, seed=seed))
    # larger grids with exactly one slice removed, at every position (first, inner, last index of every mode)
    for shape in ([4, 5, 4], [3, 4], [3, 2, 3, 2]):
        g = [list(p) for p in space.all_indices(shape)]
        for k in range(len(shape)):
            for v in range(shape[k]):
                sk.append(dict(shape=shape, points=[p for p in g if p[k] != v], seed=seed))
    yield Stratum('als-missing-slices', sk, 'skip', size=len(sk), chunk=32, bounds={})
    fl = []
    fplan = [([2, 2], 3), ([2, 2, 2], 3)] if tier == 'quick' else [([2, 2], 4), ([3, 2], 4), ([2, 2, 2], 4), ([3, 2, 2], 3)]
    for shape, M in fplan:
        for ms in multisets(shape, M):
            for where in ('nodes', 'off', 'outside'):
                for n in ((2, 3) if tier == 'quick' else (2, 3, 4)):
                    fl.append(dict(shape=shape, points=ms, where=where, n=n, N=3,
                                   configs=[[1, 1e-3], [2, 0.1]] if tier == 'quick' else
                                   [[r0, lamb] for r0 in (1, 2, 3) for lamb in (1e-3, 0.1, 10.0)], seed=seed))
    pr = [dict(d=d, n=n, pts=pts, weak=weak, seed=seed,
               configs=[[rk, lamb, thr] for rk in ([[2] * (d - 1), [2] + [1] * (d - 2)] if d > 2 else [[2], [1]]) for lamb in (1e-3, 1e-6) for thr in (5e-2, 0.3, 1e-3)])
          for d in (2, 3) for n in (4, 5) for pts in (4, 5) for weak in (1e-2, 1e-4, 0.2)]
    yield Stratum('als_func with mode-size pruning', pr, 'func_prune', size=len(pr), chunk=1, bounds={'thr_pow': [1e-3, 5e-2, 0.3]})
    yield Stratum('als_func-layouts', fl, 'func', size=len(fl), chunk=4, bounds={'n': [2, 4], 'points': ['nodes', 'off-node']})
