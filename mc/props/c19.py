"""C19 - explicit constructors build exactly the tensor they describe.  Mode L, exhaustive."""
import itertools
import warnings

import numpy as np
import teneva

from mc import ref, space
from mc.engine import Res, Stratum

ID = 'C19'
REGISTERED = True
LEVEL = 'exploration'
TECHNIQUE = ('exhaustive lattice enumeration: const over ALL zero-index lists up to length 3 x every protected index; delta / '
             'vector_delta / matrix_delta over ALL positions incl. negative ones; poly over shifts x powers x scales; random '
             'constructors against a bit-exact replay of the generator stream')
LEVEL_TEXT = ('the constructors are finite combinatorial objects on small shapes, so the complete argument space is enumerated and '
              'the dense export is compared entry by entry with the description; random constructors are decided bit-exactly '
              'by replaying numpy.random.default_rng(seed) in the reference (range and distribution follow without statistics)')
LEVEL_NOTE = ('bounded: const on shapes [2,2],[2,3],[2,2,2],[3,2,2] (thorough adds [2,2,2,2]), zero lists up to length 3; delta on '
              'n <= 3, d <= 4; vector_delta q <= 8 (all 2^(q+1) positions), matrix_delta q <= 4 (3 quick); rand_stab up to d = 3000')
RULE = ('cases as in TECHNIQUE; non-trivial: a const call with a non-empty zero list, a delta at a negative position, a polynomial '
        'with power >= 1, a random tensor with unequal ranks; distinct = the argument tuple.')
ASSUMPTIONS = ['numpy.random.default_rng(seed) stream is the specification of the seeded constructors']


def check_const(c):
    res = Res()
    shape = c['shape']
    d = len(shape)
    pts = space.all_indices(shape)
    vs = c['vs']
    prot = [None] + pts
    lists = [None, []]
    for L in range(1, c['L'] + 1):
        lists += [list(t) for t in itertools.product(pts, repeat=L)]
    for v in vs:
        for Iz in lists:
            for p in prot:
                res.ev()
                case = dict(shape=shape, v=v, I_zero=None if Iz is None else [list(i) for i in Iz], i_non_zero=None if p is None else list(p),
                            vs=[v], L=c['L'])
                conflict = Iz is not None and p is not None and any(tuple(i) == tuple(p) for i in Iz)
                try:
                    Y = teneva.const(shape, v, Iz if Iz is None else [list(i) for i in Iz], None if p is None else list(p))
                    got = None
                except ValueError:
                    got = 'ValueError'
                except Exception as ex:
                    got = type(ex).__name__
                if conflict:
                    res.check(got == 'ValueError', 'const.conflict', case, lambda: 'conflicting request gave %r' % (got,))
                    continue
                if not res.check(got is None, 'const.accept', case, lambda: 'raised %r' % (got,)):
                    continue
                if not res.check(ref.wellformed(Y, shape) is None and all(G.shape[0] == 1 and G.shape[2] == 1 for G in Y), 'const.rank1', case,
                                 'const must be a well-formed rank-1 tensor'):
                    continue
                A = ref.dense(Y)
                tol = 4e-15 * abs(v) * (1 + abs(np.log(abs(v))) if v else 0)
                isv = np.abs(A - v) <= tol
                is0 = A == 0
                res.check(np.all(isv | is0), 'const.values', case, lambda: 'entries other than v=%r and 0: %s' % (v, A.ravel()[:8]))
                if not Iz:
                    res.check(np.all(isv), 'const.all_v', case, 'no zero list: every entry must be v')
                else:
                    res.check(all(A[tuple(i)] == 0 for i in Iz), 'const.zeros', case, 'a listed zero index is not zero')
                    res.nt((shape, v, case['I_zero'], case['i_non_zero']))
                if p is not None:
                    res.check(isv[tuple(p)], 'const.protected', case, lambda: 'protected index holds %r, v=%r' % (A[tuple(p)], v))
    return res


def check_delta(c):
    res = Res()
    shape = c['shape']
    d = len(shape)
    for v in c['vs']:
        for pos in itertools.product(*[range(-n, n) for n in shape]):
            res.ev()
            case = dict(shape=shape, i=list(pos), v=v, vs=[v])
            Y = teneva.delta(shape, list(pos), v)
            if not res.check(ref.wellformed(Y, shape) is None, 'delta.shape', case, 'malformed'):
                continue
            A = ref.dense(Y)
            E = np.zeros(shape)
            E[tuple(p % n for p, n in zip(pos, shape))] = v
            res.check(np.all(np.abs(A - E) <= 4e-15 * abs(v)) and np.count_nonzero(A) == (1 if v != 0 else 0), 'delta.value', case,
                      lambda: 'delta at %s: %s' % (pos, A.ravel()))
            Y2 = teneva.delta(np.array(shape), np.array(pos), v)
            res.check(ref.core_bytes(Y2) == ref.core_bytes(Y), 'delta.array_args', case, 'array arguments differ from list arguments')
            if any(p < 0 for p in pos):
                res.nt((shape, pos, v))
    # equivalent argument forms: float-typed / NumPy-integer shapes and positions, NumPy scalars for the value
    res.ev()
    okf = True
    pos = [n - 1 for n in shape]
    Y0 = teneva.delta(shape, pos, 2.5)
    for shf, pf, vf in ((np.array(shape, dtype=np.int32), np.array(pos, dtype=np.int64), np.float64(2.5)),
                        (tuple(shape), tuple(pos), 2.5), (np.array(shape, dtype=np.int64), [np.int64(p) for p in pos], 2.5)):
        try:
            okf = okf and ref.core_bytes(teneva.delta(shf, pf, vf)) == ref.core_bytes(Y0)
        except Exception:
            okf = False
    C0 = teneva.const(shape, -1.5)
    for shf, vf in ((np.array(shape, dtype=np.int32), np.float64(-1.5)), (tuple(shape), -1.5)):
        try:
            okf = okf and ref.core_bytes(teneva.const(shf, vf)) == ref.core_bytes(C0)
        except Exception:
            okf = False
    P0 = teneva.poly(shape, 1., 2, 0.5)
    for shf, sf, pw, sc in ((np.array(shape), np.float64(1.), np.int64(2), np.float64(0.5)), (tuple(shape), [1.] * d, 2, 0.5),
                            (shape, np.ones(d), 2.0, 0.5)):
        try:
            okf = okf and ref.core_bytes(teneva.poly(shf, sf, pw, sc)) == ref.core_bytes(P0)
        except Exception:
            okf = False
    R0 = teneva.rand(shape, 2, seed=3)
    for shf, rf in (([float(n) for n in shape], 2), (np.array(shape, dtype=np.int32), 2.0), (tuple(shape), [1] + [2] * (d - 1) + [1]), (shape, np.array([1] + [2] * (d - 1) + [1], dtype=float))):
        try:
            okf = okf and ref.core_bytes(teneva.rand(shf, rf, seed=3)) == ref.core_bytes(R0)
            okf = okf and ref.core_bytes(teneva.rand_stab(shf, rf, 1e-3, seed=3)) == ref.core_bytes(teneva.rand_stab(shape, 2, 1e-3, seed=3))
        except Exception:
            okf = False
    res.check(bool(okf), 'forms', dict(shape=shape, vs=[2.5]), 'an equivalent form of the shape / position / value / rank argument changes (or breaks) a constructor')
    return res


def _vec_dense(Y):
    return ref.dense(Y).reshape(-1, order='F') if len(Y) > 1 else Y[0][0, :, 0]


def check_qdelta(c):
    res = Res()
    q = c['q']
    N = 2 ** q
    if c['kind'] == 'vector':
        for v in c['vs']:
            for i in range(-N - 2, N + 2):
                res.ev()
                case = dict(c, i=i, v=v)
                try:
                    Y = teneva.vector_delta(q, i, v)
                    got = None
                except ValueError:
                    got = 'ValueError'
                except Exception as ex:
                    got = type(ex).__name__
                if i >= N or i < -N:
                    res.check(got == 'ValueError', 'vector.reject', case, lambda: 'position %d accepted (%r)' % (i, got))
                    continue
                if not res.check(got is None and ref.wellformed(Y, [2] * q) is None, 'vector.accept', case, lambda: 'raised %r' % (got,)):
                    continue
                x = _vec_dense(Y)
                E = np.zeros(N)
                E[i % N] = v
                res.check(np.array_equal(x, E), 'vector.value', case, lambda: 'vector_delta(%d, %d): nonzero at %s' % (q, i, np.nonzero(x)[0]))
                if i < 0:
                    res.nt((q, i, v))
    else:
        for v in c['vs']:
            for i in range(-N, N):
                for j in range(-N, N):
                    res.ev()
                    case = dict(c, i=i, j=j, v=v)
                    Y = teneva.matrix_delta(q, i, j, v)
                    ok = isinstance(Y, list) and len(Y) == q and all(G.shape == (1, 2, 2, 1) for G in Y)
                    if not res.check(ok, 'matrix.shape', case, 'QTT-matrix cores must be (1,2,2,1)'):
                        continue
                    M = np.zeros((N, N))
                    # explicit chain over the 4-D cores: entry (a, b) = prod_k G_k[0, a_k, b_k, 0]
                    for a in range(N):
                        for b in range(N):
                            val = 1.0
                            for k in range(q):
                                val *= Y[k][0, (a >> k) & 1, (b >> k) & 1, 0]
                            M[a, b] = val
                    E = np.zeros((N, N))
                    E[i % N, j % N] = v
                    res.check(np.array_equal(M, E), 'matrix.value', case, lambda: 'matrix_delta(%d,%d,%d): nonzeros %s' % (q, i, j, np.argwhere(M)))
                    if i < 0 or j < 0:
                        res.nt((q, i, j, v))
            for (i, j) in ((N, 0), (0, N), (-N - 1, 0), (0, -N - 1)):
                res.ev()
                try:
                    teneva.matrix_delta(q, i, j, v)
                    got = None
                except ValueError:
                    got = 'ValueError'
                except Exception as ex:
                    got = type(ex).__name__
                res.check(got == 'ValueError', 'matrix.reject', dict(c, i=i, j=j), lambda: 'out-of-range position accepted (%r)' % (got,))
    return res


def check_poly(c):
    res = Res()
    shape = c['shape']
    d = len(shape)
    grid = space.grid_array(shape)
    for power in c['powers']:
        for scale in c['scales']:
            for shift in c['shifts']:
                res.ev()
                sh = shift if isinstance(shift, (int, float, str)) else shift[:d]
                case = dict(shape=shape, power=power, scale=scale, shift=sh, powers=[power], scales=[scale], shifts=[shift])
                try:
                    Y = teneva.poly(shape, sh if not isinstance(sh, str) else np.arange(1, d + 1, dtype=np.int64), power, scale)
                except Exception as ex:
                    res.fail('poly.raised', case, 'poly raised %s: %s' % (type(ex).__name__, str(ex)[:120]))
                    continue
                if not res.check(ref.wellformed(Y, shape) is None, 'poly.shape', case, 'malformed'):
                    continue
                A = ref.dense(Y)
                if isinstance(sh, str):          # integer-typed ndarray shift (no float conversion by the caller)
                    sh = np.arange(1, d + 1, dtype=np.int64)
                    case['shift'] = 'int64 ndarray 1..d'
                    Y = teneva.poly(shape, sh, power, scale)
                    A = ref.dense(Y)
                sv = np.array([sh] * d if isinstance(sh, (int, float)) else sh, dtype=float)
                if power < 0 and np.any((grid + sv) == 0):
                    res.skip('negative power of a zero base')
                    continue
                E = scale * np.sum((grid + sv) ** float(power), axis=1)
                W = A[tuple(grid.T)]
                exact = all(float(x) == int(x) for x in sv) and float(scale) == int(scale)
                exact = exact and 0 <= power <= 3
                res.check(np.array_equal(W, E) if exact else np.allclose(W, E, rtol=1e-12, atol=1e-12 * np.abs(E).max()), 'poly.value', case,
                          lambda: 'poly differs: max dev %.3e' % np.abs(W - E).max())
                if power >= 1:
                    res.nt((shape, power, scale, sh))
    return res


def _flat_cut(flat, n, r):
    d = len(n)
    out, pos = [], 0
    for i in range(d):
        sz = r[i] * n[i] * r[i + 1]
        out.append(flat[pos:pos + sz].reshape((r[i], n[i], r[i + 1]), order='F'))
        pos += sz
    return out


def check_rand(c):
    res = Res()
    n = c['shape']
    d = len(n)
    for rr in c['ranks']:
        r = [1] + [rr] * (d - 1) + [1] if isinstance(rr, int) else rr
        tot = sum(r[i] * n[i] * r[i + 1] for i in range(d))
        for sd in c['seeds']:
            case = dict(shape=n, ranks=[rr], seeds=[sd])
            # uniform
            for (a, b) in ((-1., 1.), (2., 5.)):
                res.ev()
                Y = teneva.rand(n, rr if isinstance(rr, int) else np.array(rr), a, b, seed=sd)
                ok = ref.wellformed(Y, n) is None and [G.shape[2] for G in Y] == r[1:]
                if res.check(ok, 'rand.profile', case, lambda: 'rank profile %s, wanted %s' % ([G.shape[2] for G in Y], r[1:])):
                    E = _flat_cut(np.random.default_rng(sd).uniform(a, b, size=tot), n, r)
                    res.check(all(np.array_equal(x, y) for x, y in zip(Y, E)), 'rand.stream', dict(case, a=a, b=b),
                              'cores are not the Fortran-ordered cut of default_rng(seed).uniform(a, b)')
                    res.check(all(np.all((G >= a) & (G < b)) for G in Y), 'rand.range', dict(case, a=a, b=b), 'entries outside [a, b)')
            for (m, s) in ((0., 1.), (3., 0.5)):
                res.ev()
                Y = teneva.rand_norm(n, rr, m, s, seed=sd)
                ok = ref.wellformed(Y, n) is None and [G.shape[2] for G in Y] == r[1:]
                if res.check(ok, 'rand_norm.profile', case, 'rank profile'):
                    E = _flat_cut(np.random.default_rng(sd).normal(m, s, size=tot), n, r)
                    res.check(all(np.array_equal(x, y) for x, y in zip(Y, E)), 'rand_norm.stream', dict(case, m=m, s=s),
                              'cores are not the cut of default_rng(seed).normal(m, s)')
            res.ev()
            Y = teneva.rand_custom(n, rr, lambda sz: np.arange(sz, dtype=float))
            ok = ref.wellformed(Y, n) is None and [G.shape[2] for G in Y] == r[1:]
            if res.check(ok, 'rand_custom.profile', case, 'rank profile'):
                E = _flat_cut(np.arange(tot, dtype=float), n, r)
                res.check(all(np.array_equal(x, y) for x, y in zip(Y, E)), 'rand_custom.cut', case, 'cores are not the Fortran-ordered cut of f(size)')
            for noise in (0., 1e-300, 1e-15, 1e-3):
                res.ev()
                Y = teneva.rand_stab(n, rr, noise, seed=sd)
                ok = ref.wellformed(Y, n) is None and [G.shape[2] for G in Y] == r[1:]
                if res.check(ok, 'rand_stab.profile', case, 'rank profile'):
                    g = np.random.default_rng(sd)
                    good = True
                    for k in range(d):
                        N = g.normal(0., noise, size=(r[k], n[k], r[k + 1]))
                        for p in range(n[k]):
                            N[:, p, :] += np.eye(r[k], r[k + 1])
                        good = good and np.array_equal(N, Y[k])
                    res.check(good, 'rand_stab.stream', dict(case, noise=noise), 'cores are not identity slices plus the seeded noise')
                    if np.prod(n) <= 4096:
                        A = ref.dense(Y)
                        Bd = ref.dense([np.abs(G - np.eye(G.shape[0], G.shape[2])[:, None, :]) + np.eye(G.shape[0], G.shape[2])[:, None, :] for G in Y])
                        res.check(np.all(np.abs(A - 1.0) <= (Bd - 1.0) * (1 + 1e-9) + 1e-14), 'rand_stab.ones', dict(case, noise=noise),
                                  lambda: 'entries deviate from 1 by %.3e, bound %.3e' % (np.abs(A - 1).max(), (Bd - 1).max()))
            if len(set(r)) > 2:
                res.nt((n, r, sd))
    return res


def check_stab_big(c):
    """rand_stab stays of order one in any dimension."""
    res = Res()
    d, rr, noise = c['d'], c['r'], c['noise']
    for sd in c['seeds']:
        res.ev()
        case = dict(c, seeds=[sd])
        Y = teneva.rand_stab([2] * d, rr, noise, seed=sd)
        ok = ref.wellformed(Y, [2] * d) is None
        if not res.check(ok, 'rand_stab.big.shape', case, 'malformed'):
            continue
        # entry at 0..0 and at 1..1 and alternating, by left-to-right chain with running bound
        for idx in ([0] * d, [1] * d, [k % 2 for k in range(d)]):
            v = np.ones((1, 1))
            for k, G in enumerate(Y):
                v = v @ G[:, idx[k], :]
            val = float(v[0, 0])
            bound = d * rr * noise * 12 + 1e-12
            res.check(abs(val - 1.0) <= bound, 'rand_stab.big.order_one', dict(case, idx='pattern'),
                      lambda: 'entry %.6g deviates from 1 by more than %.3e in d=%d' % (val, bound, d))
        res.nt((d, rr, noise, sd))
    return res


CHECKERS = {'const': check_const, 'delta': check_delta, 'qdelta': check_qdelta, 'poly': check_poly, 'rand': check_rand,
            'stab_big': check_stab_big}


def strata(tier, seed):
    VS = [2.0, -3.0, 0.0, 1e-17, -1e-200, 1e200]
    cs = [dict(shape=s, vs=[v], L=(3 if (tier != 'quick' or np.prod(s) <= 6) else 2)) for s in ([2, 2], [2, 3], [2, 2, 2], [3, 2, 2]) for v in VS]
    if tier != 'quick':
        cs += [dict(shape=[2, 2, 2, 2], vs=[v], L=2) for v in VS] + [dict(shape=[1, 3], vs=[v], L=3) for v in VS]
    yield Stratum('const', cs, 'const', seq=True, size=len(cs), chunk=1, bounds={'zero-list length': '<= 3', 'protected': 'every index or none'})
    ds = [dict(shape=s, vs=[1.0, -2.5, 0.0, 1e-300]) for d in (2, 3, 4) for s in space.shapes([d], [1, 2, 3]) if tier != 'quick' or d < 4 or max(s) <= 2]
    yield Stratum('delta', ds, 'delta', seq=True, size=len(ds), chunk=8, bounds={'positions': 'all incl. negative'})
    qs = [dict(kind='vector', q=q, vs=[1.0, -2.0, 0.5, 0.0, 1e-17, -3e-200, 1e200]) for q in range(1, 9)] + \
         [dict(kind='matrix', q=q, vs=[1.0, -3.0, 1e-17, 0.0]) for q in range(1, (4 if tier == 'quick' else 5))]
    yield Stratum('qtt delta vector / matrix', qs, 'qdelta', seq=True, size=len(qs), chunk=1, bounds={'vector q': '1..8', 'matrix q': '1..%d' % (3 if tier == 'quick' else 4)})
    ps = [dict(shape=s, powers=[0, 1, 2, 3, 25, -1], scales=[1.0, 2.0, -0.5], shifts=[0., 1., -2.5, 0.5, [1., 0.5, 2., 3., 1.], [0.25, -1.5, 1.5, 0.5, 2.], 'intarray'])
          for d in (2, 3, 4) for s in space.shapes([d], [1, 2, 3]) if d < 4 or max(s) <= 2 or tier != 'quick']
    yield Stratum('poly', ps, 'poly', seq=True, size=len(ps), chunk=8, bounds={'power': [0, 3]})
    rs = []
    for d in (2, 3, 4):
        for s in space.shapes([d], [1, 2, 3]):
            if d == 4 and tier == 'quick' and max(s) > 2:
                continue
            rk = [1, 2, 5] + [[1] + list(p) + [1] for p in itertools.product((1, 3), repeat=d - 1)][1:-1]
            rs.append(dict(shape=s, ranks=rk, seeds=[0, 1, 42]))
    yield Stratum('random constructors', rs, 'rand', seq=True, size=len(rs), chunk=4, bounds={})
    bs = [dict(d=d, r=r, noise=noise, seeds=[0, 1]) for d in ((10, 100, 1000) if tier == 'quick' else (10, 100, 1000, 3000)) for r in (1, 2, 5)
          for noise in (1e-15, 1e-8)]
    yield Stratum('rand_stab in high dimension', bs, 'stab_big', size=len(bs), chunk=1, bounds={'d': 'up to 3000'})
