"""C06 - TT-cross: evaluation budget, index domain, stop contract.

Mode E (environment / fault exploration, deviation-bounded).  For each base
configuration the unconstrained run is recorded once (sequence of index
requests, per-sweep info values); a ten-line shadow model then predicts, for
every deviation (budget m, None at the k-th objective call, callback True at
sweep s, thresholds e / e_vld placed between the recorded values), where the
run must stop, which reasons are admissible there and what the counters must
be.  Every deviation is executed on the real `teneva.cross`.
"""
import itertools
import warnings

import numpy as np
import teneva

from mc import ref, space
from mc.engine import Res, Stratum
from mc.env import RecordingCache, RecordingObjective, ScriptedCallback

ID = 'C06'
REGISTERED = True
TECHNIQUE = ('deviation-bounded exhaustive environment/fault enumeration of the real teneva.cross '
             '(every budget, None at every call, callback at every sweep, thresholds at every sweep, '
             'pairs of deviations) against a shadow accounting model')
LEVEL_TEXT = ('every single deviation (thorough: every pair) from the default environment is executed on the '
              'real implementation for every base configuration of a finite catalogue and compared with a '
              'ten-line shadow model of the budget/stop accounting; this is the interruption-at-every-point '
              'quantifier of the property, which no sampled test reaches')
LEVEL_NOTE = ('bounded: d <= 5, mode sizes <= 4, ranks <= 3, sweep horizon 2-3, deviation bound 1 (quick) / 2 '
              '(thorough); data values from one generic pattern per seed plus the zero function; NumPy/SciPy trusted')
LEVEL = 'fault_enumeration'
RULE = ('base configurations = product(shape, target rank/zero function, initial rank, '
        '(dr_min,dr_max), cache on/off, sweep horizon); for each, EVERY budget m in 1..M+1, '
        'None at EVERY objective call k, callback True at EVERY sweep, e / e_vld thresholds just '
        'above every recorded per-sweep value, (thorough) all pairs of two deviations, and all '
        '2^4 x 4 presence patterns of the stop arguments. A case is non-trivial when the '
        'deviation really interrupted the run before its horizon (distinct = distinct '
        '(configuration, deviation, stop point)).')
ASSUMPTIONS = [
    'the objective is a table lookup on a dense array (no objective-side failures other than None)',
    'deviated runs are prefixes of the recorded unconstrained run (asserted: clause replay_prefix)',
    'a stop criterion that already holds after the pre-iteration may cost one more request '
    '(the implementation notices the flag after its next request); accepted',
    'data values: one generic pattern per VERIF_SEED plus the zero function; structure exhaustive',
]

CASE_TIMEOUT = 60        # every run has an explicit horizon; a run that does not stop within it is a violation (clause timeout)
DOC_STOPS = ('func', 'm', 'e', 'nswp', 'conv', 'e_vld', 'cb')
BIG = 10 ** 9


def _target(c, seed):
    if c['target'] == 'zero':
        return np.zeros(c['shape'])
    rk = [1] + [c['rho']] * (len(c['shape']) - 1) + [1]
    T = ref.dense(space.tt(c['shape'], rk, 'gen', seed, tag=11))
    return T


def _y0(c, seed):
    rk = [1] + [c['r0']] * (len(c['shape']) - 1) + [1]
    return space.tt(c['shape'], rk, 'gen', seed, tag=23)


def _vld(c, T):
    I = space.grid_array(c['shape'])
    I = I[::2] if len(I) > 3 else I
    return I, T[tuple(I.T)].copy()


def _run(c, seed, m=None, none_at=None, cb_at=None, e=None, e_vld=None, nswp=None,
         use_vld=False, with_cb=True, scale=BIG):
    """One execution of the real cross under a fully controlled environment."""
    T = _target(c, seed)
    Y0 = _y0(c, seed)
    Y0_bytes = ref.core_bytes(Y0)
    f = RecordingObjective(T, none_at=none_at)
    cache = RecordingCache() if c['cache'] else None
    cb = ScriptedCallback(true_at=cb_at) if with_cb else None
    info = {}
    kw = dict(m=m, e=e, nswp=nswp, dr_min=c['dr'][0], dr_max=c['dr'][1], info=info,
              cache=cache, cb=cb, e_vld=e_vld, m_cache_scale=scale, k0=c.get('k0', 100), tau=c.get('tau', 1.1),
              tau0=c.get('tau0', 1.05))
    if use_vld:
        I_vld, y_vld = _vld(c, T)
        kw.update(I_vld=I_vld, y_vld=y_vld)
    calls_at_cb = []
    if cb is not None:
        inner = cb

        def cbw(Y, info, opts):
            calls_at_cb.append(f.calls)
            return inner(Y, info, opts)
        kw['cb'] = cbw
    with warnings.catch_warnings():
        warnings.simplefilter('ignore')
        Y = teneva.cross(f, Y0, **kw)
    return dict(Y=Y, info=info, f=f, cache=cache, cb=cb, calls_at_cb=calls_at_cb,
                T=T, Y0_ok=(ref.core_bytes(Y0) == Y0_bytes))


def _okv(v, thr):
    return thr is not None and v is not None and np.isfinite(v) and 0 <= v <= thr


class Base:
    """Recorded unconstrained run: requests (from the cache-free twin) + per-sweep values."""

    def __init__(self, c, seed, N, use_vld):
        c0 = dict(c, cache=False)
        r = _run(c0, seed, nswp=N, use_vld=use_vld)
        self.requests = [b for b in r['f'].batches]
        self.e = [s['info']['e'] for s in r['cb'].snaps]
        self.e_vld = [s['info']['e_vld'] for s in r['cb'].snaps]
        self.N = N
        self.d = len(c['shape'])
        r0 = _run(c0, seed, nswp=0, use_vld=use_vld)
        self.e_vld0 = r0['info']['e_vld']
        self.ok = (len(self.requests) == 2 * self.d * N and len(self.e) == N)


def model(base, c, m=None, none_at=None, cb_at=None, e=None, e_vld=None, nswp=None,
          scale=BIG):
    """Shadow accounting model -> dict(point, reasons, m, m_cache, fcalls, nswp)."""
    d = base.d
    cached = bool(c['cache'])
    seen = set()
    m_used = m_cache = fcalls = done = 0
    evaluated = []
    pre = set()
    if _okv(base.e_vld0, e_vld):
        pre.add('e_vld')
    if nswp is not None and nswp <= 0:
        pre.add('nswp')

    def out(reasons, sweeps):
        return dict(reasons=set(reasons), m=m_used, m_cache=m_cache, fcalls=fcalls,
                    nswp=sweeps, requests=done, evaluated=evaluated)
    for s in range(1, base.N + 1):
        for j in range(2 * d):
            I = base.requests[(s - 1) * 2 * d + j]
            if cached:
                rows = [tuple(int(x) for x in row) for row in I]
                new = []
                for t in rows:
                    if t not in seen and t not in new:
                        new.append(t)
            else:
                new = [tuple(int(x) for x in row) for row in I]
            if (not cached) or new:
                if m is not None and m_used + len(new) > m:
                    return out({'m'} | pre, s - 1)
                fcalls += 1
                if none_at is not None and fcalls == none_at:
                    return out({'func'} | pre, s - 1)
                m_used += len(new)
                evaluated.extend(new)
                seen.update(new)
            if cached:
                m_cache += len(I) - len(new)
            done += 1
            if pre:
                return out(pre, s - 1)
        cand = set()
        if cached and m_cache > scale * m_used:
            cand.add('conv')
        if cb_at is not None and cb_at == s:
            cand.add('cb')
        if _okv(base.e_vld[s - 1], e_vld):
            cand.add('e_vld')
        if _okv(base.e[s - 1], e):
            cand.add('e')
        if nswp is not None and s >= nswp:
            cand.add('nswp')
        if cand:
            return out(cand, s)
    return None      # horizon of the recording exceeded: not decidable from this base


def _judge(res, c, base, dev, seed, use_vld):
    """Execute one deviation on the real code and compare with the model."""
    case = dict(c, dev=dev, use_vld=use_vld)
    res.ev()
    exp = model(base, c, **dev)
    if exp is None:
        res.skip('beyond recorded horizon')
        return
    r = _run(c, seed, use_vld=use_vld, **dev)
    info, f, Y = r['info'], r['f'], r['Y']
    d = base.d
    shape = c['shape']
    stop = info.get('stop')
    tags = ['cache' if c['cache'] else 'nocache', 'target=' + c['target'],
            'dr=%d,%d' % tuple(c['dr'])]
    res.outcome('%s@%s' % (stop, exp['requests']))
    # -- wellformed -----------------------------------------------------------
    why = ref.wellformed(Y, shape)
    res.check(why is None and ref.finite(Y), 'wellformed', case,
              lambda: 'returned tensor: %s / finite=%s' % (why, why is None and ref.finite(Y)), tags)
    res.check(r['Y0_ok'], 'y0_untouched', case, 'initial tensor was modified', tags)
    # -- domain ---------------------------------------------------------------
    dom_ok = True
    for b in f.batches:
        if not (isinstance(b, np.ndarray) and b.ndim == 2 and b.shape[1] == d
                and b.dtype.kind in 'iu' and b.shape[0] >= 1
                and np.all(b >= 0) and np.all(b < np.array(shape))):
            dom_ok = False
    res.check(dom_ok, 'domain', case, 'a batch is not an in-bounds 2-D integer array of width d', tags)
    if not dom_ok:
        return
    # -- replay prefix --------------------------------------------------------
    got_eval = []
    for k, b in enumerate(f.batches):
        if dev.get('none_at') is not None and k + 1 == dev['none_at']:
            continue
        got_eval.extend(tuple(int(x) for x in row) for row in b)
    if not c['cache']:
        pref = all(k < len(base.requests) and np.array_equal(b, base.requests[k])
                   for k, b in enumerate(f.batches))
        res.check(pref, 'replay_prefix', case, 'deviated run is not a prefix of the recorded run', tags)
    # -- counters -------------------------------------------------------------
    n_received = sum(len(b) for b in f.batches)
    if dev.get('m') is not None:
        res.check(n_received <= dev['m'], 'budget', case,
                  lambda: 'objective received %d indices with budget m=%d' % (n_received, dev['m']),
                  tags + ['budget'])
    res.check(info.get('m') == len(got_eval), 'count.m', case,
              lambda: "info['m']=%r but %d indices were evaluated" % (info.get('m'), len(got_eval)), tags)
    if c['cache']:
        res.check(len(set(got_eval)) == len(got_eval), 'cache.once', case,
                  lambda: 'an index was handed to the objective twice (%d evaluated, %d distinct)'
                  % (len(got_eval), len(set(got_eval))), tags + ['dup-eval'])
        cache = r['cache']
        T = r['T']
        want = {t: float(T[t]) for t in got_eval}
        same = (set(cache.keys()) == set(want.keys())
                and all(isinstance(k, tuple) and len(k) == d for k in cache.keys())
                and all(cache_get(cache, k) == v for k, v in want.items()))
        res.check(same, 'cache.content', case,
                  lambda: 'cache holds %d keys, %d evaluated pairs expected' % (len(cache), len(want)), tags)
    # -- stop contract --------------------------------------------------------
    res.check(stop in DOC_STOPS, 'stop.documented', case, lambda: 'stop=%r' % (stop,), tags)
    res.check(stop in exp['reasons'], 'stop.reason', case,
              lambda: 'stop=%r, admissible at the predicted stop point: %s; info=%s' % (
                  stop, sorted(exp['reasons']), _small(info)), tags + ['stop=%s' % stop])
    res.check(info.get('nswp') == exp['nswp'] and f.calls == exp['fcalls'], 'stop.point', case,
              lambda: 'stopped after %r sweeps / %d objective calls, model: %d sweeps / %d calls (%s)' % (
                  info.get('nswp'), f.calls, exp['nswp'], exp['fcalls'], sorted(exp['reasons'])), tags)
    res.check(info.get('m') == exp['m'], 'model.m', case,
              lambda: "info['m']=%r, model %d" % (info.get('m'), exp['m']), tags)
    if c['cache']:
        res.check(info.get('m_cache') == exp['m_cache'], 'model.m_cache', case,
                  lambda: "info['m_cache']=%r, model %d" % (info.get('m_cache'), exp['m_cache']), tags)
    else:
        res.check(info.get('m_cache') == 0, 'model.m_cache', case, 'm_cache without cache', tags)
    # reason-specific consistency (independent of the model)
    if stop == 'nswp':
        res.check(dev.get('nswp') is not None and info['nswp'] == dev['nswp'], 'reason.nswp', case,
                  lambda: 'stop nswp with info nswp=%r, limit %r' % (info['nswp'], dev.get('nswp')), tags)
    if stop == 'e':
        res.check(_okv(info['e'], dev.get('e')), 'reason.e', case,
                  lambda: 'stop e with e=%r thr=%r' % (info['e'], dev.get('e')), tags)
    if stop == 'e_vld':
        res.check(_okv(info['e_vld'], dev.get('e_vld')), 'reason.e_vld', case,
                  lambda: 'stop e_vld with e_vld=%r thr=%r' % (info['e_vld'], dev.get('e_vld')), tags)
    if stop == 'func':
        res.check(dev.get('none_at') == f.calls, 'reason.func', case, 'stop func but last call was answered', tags)
    if stop == 'cb':
        res.check(dev.get('cb_at') == len(r['cb'].snaps) and r['calls_at_cb'][-1] == f.calls,
                  'reason.cb', case, 'stop cb not right after the callback returned True', tags)
    if dev.get('nswp') is not None:
        res.check(info['nswp'] <= dev['nswp'], 'nswp.never_exceeded', case, 'more sweeps than nswp', tags)
    if stop == 'm':
        nxt = exp  # model says next request would exceed
        res.ok('reason.m')
    interrupted = (stop in ('m', 'func', 'cb', 'e', 'e_vld', 'conv')
                   or (dev.get('nswp') is not None and dev['nswp'] < base.N))
    if interrupted:
        res.nt({'c': c, 'dev': dev, 'at': exp['requests'], 'v': use_vld})


def cache_get(cache, k):
    return dict.__getitem__(cache, k)


def _small(info):
    return {k: v for k, v in info.items() if k != 't'}


def check_config(c):
    """All deviations of one base configuration."""
    res = Res()
    seed = c.get('seed', 0)
    N = c['N']
    pairs = c.get('pairs', False)
    with warnings.catch_warnings():
        warnings.simplefilter('ignore')
        base = Base(c, seed, N, use_vld=False)
        basev = Base(c, seed, N, use_vld=True) if c['target'] != 'zero' else None
    res.tr(2)
    if not base.ok:
        res.fail('base', c, 'unconstrained run did not give 2*d*N requests / N sweeps')
        return res
    cc = {k: c[k] for k in ('shape', 'target', 'rho', 'r0', 'dr', 'cache', 'seed', 'k0', 'tau', 'tau0') if k in c}
    ex0 = model(base, cc, nswp=N)
    M, K = ex0['m'], ex0['fcalls']
    # 0 deviations
    _judge(res, cc, base, dict(nswp=N), seed, False)
    # budgets
    ms = range(1, M + 2) if M <= c.get('m_all', 400) else sorted(_boundaries(base, cc, N))
    for m in ms:
        _judge(res, cc, base, dict(m=m, nswp=N), seed, False)
    # fractional budgets around every boundary (the library documents ints and its own tests pass floats): a budget is never exceeded,
    # so 33.6 allows 33 evaluations, not 34
    for m0 in sorted(_boundaries(base, cc, N)):
        for frac in (0.6, 0.5):
            _judge(res, cc, base, dict(m=m0 - 1 + frac, nswp=N), seed, False)
    # budget only (no nswp): horizon from the recording (m < M guarantees a stop)
    for m in list(ms)[:: max(1, len(list(ms)) // 8)]:
        if m < M:
            _judge(res, cc, base, dict(m=m), seed, False)
    # None at every call
    for k in range(1, K + 1):
        _judge(res, cc, base, dict(none_at=k, nswp=N), seed, False)
    # callback at every sweep
    for s in range(1, N + 1):
        _judge(res, cc, base, dict(cb_at=s, nswp=N), seed, False)
    # smaller sweep limits (incl. 0)
    for n in range(0, N):
        _judge(res, cc, base, dict(nswp=n), seed, False)
    # e thresholds
    for v in sorted(set(x for x in base.e if np.isfinite(x) and x >= 0)):
        _judge(res, cc, base, dict(e=v * (1 + 1e-9) + 1e-300, nswp=N), seed, False)
        _judge(res, cc, base, dict(e=v * (1 - 1e-9), nswp=N), seed, False)
    # e_vld thresholds
    if basev is not None and basev.ok:
        vs = sorted(set(x for x in basev.e_vld + [basev.e_vld0] if np.isfinite(x) and x >= 0))
        for v in vs:
            _judge(res, cc, basev, dict(e_vld=v * (1 + 1e-9) + 1e-300, nswp=N), seed, True)
            _judge(res, cc, basev, dict(e_vld=v * (1 - 1e-9), nswp=N), seed, True)
        _judge(res, cc, basev, dict(nswp=N), seed, True)
    # a second criterion that is formally satisfied at the moment of an interruption must not displace the real reason:
    # with e set, the convergence value of an interrupted half-sweep can be 0 (nothing changed yet)
    for ethr in (1e-13, 0.5):
        for k in range(1, K + 1):
            _judge(res, cc, base, dict(none_at=k, e=ethr, nswp=N), seed, False)
        for m in sorted(_boundaries(base, cc, N)):
            _judge(res, cc, base, dict(m=m, e=ethr, nswp=N), seed, False)
        for sw in range(1, N + 1):
            _judge(res, cc, base, dict(cb_at=sw, e=ethr, nswp=N), seed, False)
    if basev is not None and basev.ok:
        for k in range(1, K + 1, 2):
            _judge(res, cc, basev, dict(none_at=k, e_vld=0.9, nswp=N), seed, True)
    # conv with the default scale
    if c['cache']:
        _judge(res, cc, base, dict(nswp=N, scale=5), seed, False)
        _judge(res, cc, base, dict(nswp=N, scale=1), seed, False)
        _judge(res, cc, base, dict(nswp=N, scale=0), seed, False)
    if pairs:
        bm = sorted(_boundaries(base, cc, N))
        for m in bm:
            for k in range(1, K + 1):
                _judge(res, cc, base, dict(m=m, none_at=k, nswp=N), seed, False)
            for s in range(1, N + 1):
                _judge(res, cc, base, dict(m=m, cb_at=s, nswp=N), seed, False)
        for k in range(1, K + 1):
            for s in range(1, N + 1):
                _judge(res, cc, base, dict(none_at=k, cb_at=s, nswp=N), seed, False)
        for s in range(1, N + 1):
            for n in range(0, N + 1):
                _judge(res, cc, base, dict(cb_at=s, nswp=n), seed, False)
    res.tr(res.evals)
    return res


def _boundaries(base, c, N):
    """Budgets at, just below and just above every cumulative request boundary."""
    out = set()
    tot = 0
    cached = bool(c['cache'])
    seen = set()
    for I in base.requests:
        rows = [tuple(int(x) for x in r) for r in I]
        if cached:
            new = []
            for t in rows:
                if t not in seen and t not in new:
                    new.append(t)
            seen.update(new)
            tot += len(new)
        else:
            tot += len(rows)
        out.update({tot - 1, tot, tot + 1})
    return {m for m in out if m >= 1}


def check_args(c):
    """Presence patterns of the stop arguments."""
    res = Res()
    seed = c.get('seed', 0)
    cc = dict(shape=c['shape'], target='gen', rho=c['rho'], r0=c['r0'], dr=c['dr'], cache=c['cache'])
    T = _target(cc, seed)
    Ig, yg = _vld(cc, T)
    for pm, pe, pn, pv in itertools.product([0, 1], repeat=4):
        for vld in ('none', 'both', 'I_only', 'y_only'):
            res.ev()
            case = dict(c, present=dict(m=pm, e=pe, nswp=pn, e_vld=pv), vld=vld)
            Y0 = _y0(cc, seed)
            b0 = ref.core_bytes(Y0)
            f = RecordingObjective(T)
            cb = ScriptedCallback(true_at=6)
            kw = dict(m=40 if pm else None, e=1e-6 if pe else None, nswp=2 if pn else None,
                      e_vld=1e-6 if pv else None, dr_min=cc['dr'][0], dr_max=cc['dr'][1],
                      info={}, cache={} if cc['cache'] else None, cb=cb)
            if vld in ('both', 'I_only'):
                kw['I_vld'] = Ig
            if vld in ('both', 'y_only'):
                kw['y_vld'] = yg
            have_data = (vld == 'both')
            must_raise = ((not pm and not pe and not pn and not (have_data and pv))
                          or (pv and not have_data))
            raised = None
            try:
                with warnings.catch_warnings():
                    warnings.simplefilter('ignore')
                    Y = teneva.cross(f, Y0, **kw)
            except ValueError as ex:
                raised = 'ValueError'
            except Exception as ex:
                raised = type(ex).__name__ + ': ' + str(ex)[:100]
            if must_raise:
                res.check(raised == 'ValueError', 'args.reject', case,
                          lambda: 'expected ValueError, got %r (calls=%d)' % (raised, f.calls))
                res.check(f.calls == 0, 'args.before_eval', case, 'objective called before rejection')
                res.check(ref.core_bytes(Y0) == b0, 'args.y0', case, 'Y0 modified')
                res.nt(case)
            else:
                if res.check(raised is None, 'args.accept', case, lambda: 'raised %r' % (raised,)):
                    why = ref.wellformed(Y, cc['shape'])
                    res.check(why is None and ref.finite(Y), 'wellformed', case, lambda: str(why))
                    res.check(kw['info'].get('stop') in DOC_STOPS, 'stop.documented', case,
                              lambda: repr(kw['info'].get('stop')))
                    if pm:
                        res.check(sum(len(b) for b in f.batches) <= 40, 'budget', case, 'budget exceeded')
                    res.outcome('args:' + str(kw['info'].get('stop')))
    res.tr(res.evals)
    return res


def check_warm(c):
    """A cache that already holds the evaluations of an earlier run (a multi-step history): the second run must not ask again for
    what is stored, must count only what it evaluates itself, and its budget is a budget of NEW evaluations - every budget value."""
    res = Res()
    seed = c.get('seed', 0)
    N = c['N']
    T = _target(c, seed)
    d = len(c['shape'])
    base = _run(dict(c, cache=False), seed, nswp=N)
    reqs = [[tuple(int(x) for x in row) for row in b] for b in base['f'].batches]
    r1 = _run(dict(c, cache=True), seed, nswp=c['first'])
    E1 = {k: dict.__getitem__(r1['cache'], k) for k in r1['cache'].keys()}
    res.tr(len(reqs))

    def simulate(m):
        have, used, sent, stop = set(E1), 0, [], 'nswp'
        for b in reqs:
            new = [t for t in b if t not in have]
            if m is not None and used + len(new) > m:
                stop = 'm'
                break
            sent.extend(new)
            have.update(new)
            used += len(new)
        return sent, stop
    full, _ = simulate(None)
    cum, tot = set(), 0
    for b in reqs:                      # budgets: around every cumulative count of new indices (the accounting changes exactly there)
        tot += len([t for t in b if t not in E1 and t not in cum])
        cum.update(t for t in b if t not in E1)
    marks, have_, run_ = set(), set(E1), 0
    for b in reqs:
        k_ = len([t for t in b if t not in have_])
        have_.update(b)
        run_ += k_
        marks.update({run_ - 1, run_, run_ + 1})
    budgets = [None] + sorted(x for x in marks | {0, 1, len(full) // 2} if x >= 0)
    for m in budgets:
        res.ev()
        case = dict(c, m=m)
        Y0 = _y0(c, seed)
        f2 = RecordingObjective(T)
        C2 = RecordingCache(dict(E1))
        info = {}
        try:
            with warnings.catch_warnings():
                warnings.simplefilter('ignore')
                Y = teneva.cross(f2, Y0, m=m, nswp=N, dr_min=c['dr'][0], dr_max=c['dr'][1], info=info, cache=C2, m_cache_scale=BIG)
        except Exception as ex:
            res.fail('warm.raised', case, '%s: %s' % (type(ex).__name__, str(ex)[:200]), ['exception'])
            continue
        sent = [tuple(int(x) for x in row) for b in f2.batches for row in b]
        want, wstop = simulate(m if m else None)      # m = 0 is documented as "no budget" (falsy)
        res.check(not (set(sent) & set(E1)), 'warm.once', case, 'an index stored by the earlier run was evaluated again')
        res.check(info.get('m') == len(sent), 'warm.m', case, lambda: "info['m']=%r, %d indices were sent to the objective in this run" % (info.get('m'), len(sent)))
        res.check(set(C2.keys()) == set(E1) | set(sent) and all(dict.__getitem__(C2, k) == float(T[k]) for k in C2.keys()), 'warm.content', case,
                  'the cache does not hold exactly the earlier entries plus the new evaluations')
        # a sweep that evaluated nothing new (m = 0 against any number of cache hits) is the documented cache-convergence stop
        conv_ok = info.get('stop') == 'conv' and not sent and not any(t not in E1 for b in reqs[:2 * d] for t in b)
        res.check(conv_ok or (sorted(sent) == sorted(want) and info.get('stop') == wstop), 'warm.model', case,
                  lambda: 'sent %d indices and stopped by %r; the accounting model predicts %d and %r' % (len(sent), info.get('stop'), len(want), wstop))
        if m:
            res.check(len(sent) <= m, 'warm.budget', case, lambda: 'budget %d, %d new evaluations' % (m, len(sent)))
        res.nt((c['shape'], c['r0'], c['dr'], c['first'], m))
        res.outcome((info.get('stop'), len(sent)))
    return res


class _Fn:
    """Objective given by a formula (no dense table): for tensors with more than 2^63 elements and for requests of thousands of rows."""

    def __init__(self, shape, none_at=None):
        self.shape, self.none_at, self.calls, self.batches, self.answered = shape, none_at, 0, [], []

    def __call__(self, I):
        self.calls += 1
        J = np.array(I, copy=True)
        self.batches.append(J)
        if self.none_at is not None and self.calls == self.none_at:
            return None
        self.answered.append(J)
        return np.cos(J @ (0.1 + 0.01 * np.arange(len(self.shape)))) + 0.1 * J[:, 0]


def check_huge(c):
    """Accounting and domain on tensors too large for a table (a product of mode sizes beyond 2^63) and on requests of several thousand
    rows, with the objective giving up at every call."""
    res = Res()
    shape, r0 = c['shape'], c['r0']
    d = len(shape)
    Y0 = [np.cos(0.3 * np.arange(a * n * b) + k).reshape(a, n, b) for k, (a, n, b) in enumerate(zip([1] + [r0] * (d - 1), shape, [r0] * (d - 1) + [1]))]
    probe = _Fn(shape)
    with warnings.catch_warnings():
        warnings.simplefilter('ignore')
        teneva.cross(probe, Y0, nswp=1, dr_min=0, dr_max=0, info={}, cache=None)
    K = {False: probe.calls}
    T_ = {False: sum(len(b) for b in probe.batches)}
    seen_, newc = set(), []
    for b in probe.batches:                   # with a cache only the rows not yet stored are sent, and a batch without new rows is not sent at all
        rows_ = [tuple(int(x) for x in row) for row in b]
        newc.append(len([t for t in dict.fromkeys(rows_) if t not in seen_]))
        seen_.update(rows_)
    K[True], T_[True] = sum(1 for x in newc if x), sum(newc)
    runs = [dict(none_at=None, m=None, cache=False), dict(none_at=None, m=None, cache=True), dict(none_at=None, m=T_[True] + 5, cache=True), dict(none_at=None, m=max(1, T_[True] // 2), cache=True),
            dict(none_at=None, m=max(1, T_[False] // 2), cache=False)] + [dict(none_at=k, m=None, cache=ca) for ca in (False, True) for k in range(1, K[ca] + 1)]
    for r in runs:
        total = T_[r['cache']]
        res.ev()
        case = dict(c, **r)
        f = _Fn(shape, r['none_at'])
        cache = {} if r['cache'] else None
        info = {}
        try:
            with warnings.catch_warnings():
                warnings.simplefilter('ignore')
                Y = teneva.cross(f, Y0, m=r['m'], nswp=1, dr_min=0, dr_max=0, info=info, cache=cache, m_cache_scale=BIG)
        except Exception as ex:
            res.fail('huge.raised', case, '%s: %s' % (type(ex).__name__, str(ex)[:200]), ['exception'])
            continue
        rows = [tuple(int(x) for x in row) for b in f.answered for row in b]
        allrows = np.vstack(f.batches) if f.batches else np.zeros((0, d), dtype=int)
        res.check(allrows.dtype.kind in 'iu' and np.all(allrows >= 0) and np.all(allrows < np.array(shape)), 'huge.domain', case, 'an index outside the tensor was requested')
        res.check(info.get('m') == len(rows), 'huge.m', case, lambda: "info['m']=%r, %d indices were evaluated" % (info.get('m'), len(rows)))
        if cache is not None:
            res.check(set(cache.keys()) == set(rows) and len(rows) == len(set(rows)), 'huge.cache', case,
                      lambda: 'cache holds %d entries, %d distinct indices were evaluated (%d evaluations)' % (len(cache), len(set(rows)), len(rows)))
        if r['m'] is not None:
            res.check(len(rows) <= r['m'], 'huge.budget', case, lambda: 'budget %r, %d evaluations' % (r['m'], len(rows)))
            res.check(info.get('stop') == ('m' if r['m'] < total else 'nswp') and (r['m'] < total or len(rows) == total), 'huge.stop', case,
                      lambda: 'budget %r against %d indices of one sweep: stop=%r after %d evaluations' % (r['m'], total, info.get('stop'), len(rows)))
        elif r['none_at'] is not None:
            res.check(info.get('stop') == 'func' and f.calls == r['none_at'], 'huge.func', case, lambda: 'None at call %d: stop=%r after %d calls' % (r['none_at'], info.get('stop'), f.calls))
        else:
            res.check(info.get('stop') == 'nswp' and len(rows) == total, 'huge.stop', case, lambda: 'stop=%r, %d of %d indices' % (info.get('stop'), len(rows), total))
        res.check(ref.wellformed(Y, shape) is None and ref.finite(Y), 'huge.wellformed', case, 'result malformed')
        res.nt((tuple(shape), r0, r['none_at'], r['m'], r['cache']))
    return res


CHECKERS = {'huge': check_huge, 'config': check_config, 'args': check_args, 'warm': check_warm}


def _configs(tier, seed):
    if tier == 'quick':
        shapes = [[2, 3], [3, 2, 3], [2, 2, 2, 2], [3, 1, 2], [5, 4, 6]]
        rhos, r0s, N = [1, 2], [1, 2], 2
        drs = [(0, 0), (1, 1), (0, 2), (2, 2), (2, 3)]
    else:
        shapes = [[2, 3], [4, 4], [3, 2, 3], [1, 3, 2], [3, 1, 2], [2, 3, 1], [3, 3, 3],
                  [2, 2, 2, 2], [2, 3, 2, 3], [2, 2, 2, 2, 2]]
        rhos, r0s, N = [1, 2, 3], [1, 2, 3], 3
        drs = [(0, 0), (0, 1), (1, 1), (1, 2), (2, 2), (0, 3)]
    out = []
    for sh in shapes:
        for target, rho in [('gen', r) for r in rhos] + [('zero', 0)]:
            for r0 in r0s:
                for dr in drs:
                    for cache in (False, True):
                        out.append(dict(shape=sh, target=target, rho=rho, r0=r0, dr=list(dr),
                                        cache=cache, N=N, seed=seed))
    # non-default maxvol parameters (iteration limit 1, loose accuracy) on one shape
    for k0, tau, tau0 in ((1, 1.1, 1.05), (100, 2.0, 1.5), (0, 1.1, 1.05) if False else (2, 3.0, 1.01)):
        for dr in drs[:3]:
            for cache in (False, True):
                out.append(dict(shape=[3, 2, 3], target='gen', rho=2, r0=1, dr=list(dr), cache=cache, N=N, seed=seed, k0=k0, tau=tau, tau0=tau0))
    return out


def strata(tier, seed):
    cfgs = _configs(tier, seed)
    yield Stratum('deviation<=1', cfgs, 'config', size=len(cfgs), chunk=1,
                  bounds={'deviations': 1, 'sweep_horizon': cfgs[0]['N'], 'configs': len(cfgs)})
    args = [dict(shape=sh, rho=2, r0=2, dr=[1, 1], cache=ca, seed=seed)
            for sh in ([[2, 3], [3, 2, 3]] if tier == 'quick' else [[2, 3], [3, 2, 3], [2, 2, 2, 2]])
            for ca in (False, True)]
    yield Stratum('arg-presence', args, 'args', size=len(args), chunk=1,
                  bounds={'patterns': 16 * 4})
    wm = [dict(shape=sh, rho=2, r0=r0, dr=list(dr), target='gen', first=first, N=2, seed=seed)
          for sh in ([[2, 3], [3, 2, 3]] if tier == 'quick' else [[2, 3], [3, 2, 3], [2, 2, 2, 2], [4, 3]])
          for r0 in (1, 2) for dr in ((0, 0), (1, 1)) for first in (0, 1, 2)]
    yield Stratum('warm cache: second run on the cache of a first run, every budget', wm, 'warm', size=len(wm), chunk=1, bounds={'first run sweeps': [0, 1, 2], 'second run sweeps': 2})
    hg = [dict(shape=[40] * 12, r0=1), dict(shape=[10] * 19, r0=2), dict(shape=[8] * 22, r0=1), dict(shape=[40, 40, 40], r0=11), dict(shape=[70, 70], r0=60)]
    yield Stratum('tensors beyond 2^63 elements; requests of several thousand rows', hg, 'huge', size=len(hg), chunk=1, bounds={'elements': 'up to 40^12', 'rows per request': 'up to 4840'})
    if tier == 'thorough':
        p = [dict(c, pairs=True, N=2) for c in _configs('quick', seed)]
        yield Stratum('deviation<=2', p, 'config', size=len(p), chunk=1,
                      bounds={'deviations': 2, 'sweep_horizon': 2})
