"""C15 - optimum search returns true tensor entries and is exact when nothing is pruned.  Mode L."""
import itertools
import warnings

import numpy as np
import teneva

from mc import ref, space
from mc.engine import Res, Stratum

ID = 'C15'
REGISTERED = True
LEVEL = 'exploration'
TECHNIQUE = ('exhaustive lattice enumeration: all small shapes x rank profiles x value patterns (ties, constants, signs) x '
             'EVERY candidate count k = 1..N+1 x both sweep directions, compared with the dense tensor (bit-exact for integer '
             'cores); rank-1 Chebyshev coefficient tensors x every k for the functional variant')
LEVEL_TEXT = ('for every tensor of the catalogue and every candidate count the returned indices must be in bounds, the reported '
              'values must be the entries at those indices, min <= max, and whenever nothing can have been pruned (k >= number of '
              'elements, or rank 1) the optimum must be the true one found by brute force over the dense tensor')
LEVEL_NOTE = ('bounded: d <= 4, n <= 3 (quantised: [2^q]^d with q <= 3, d <= 2), ranks <= 3; near-ties of generic values below '
              '1e-9 relative accept either candidate; the undocumented to_orth=False service path and use="k_means" (needs '
              'scikit-learn, not a dependency) are not driven')
RULE = ('cases = product(shape, rank profile, pattern); per case every k in 1..N+1 (N <= 16) or {1,2,3,N,N+1}, both directions. '
        'Non-trivial: k < N (pruning possible) or a tensor with ties / constant entries; distinct = (tensor, k, routine).')
ASSUMPTIONS = ['ties: values, not indices, are compared']


def _ks(N):
    return list(range(1, N + 2)) if N <= 16 else [1, 2, 3, N, N + 1]


def _inb(i, shape):
    i = np.asarray(i)
    return i.shape == (len(shape),) and i.dtype.kind in 'iu' and np.all(i >= 0) and np.all(i < np.array(shape))


def plateau(shape, spike, corner):
    """Ones on the sub-block of indices < n-1 (resp. > 0), one spike in the opposite corner, zeros elsewhere: the pruned beam
    is attracted by the plateau, the second pass of optima_tt finds the spike."""
    d = len(shape)
    A, B = [], []
    for k, n in enumerate(shape):
        ind = np.ones(n)
        e = np.zeros(n)
        if corner == 'hi':
            ind[n - 1] = 0
            e[n - 1] = 1
        else:
            ind[0] = 0
            e[0] = 1
        A.append(ind.reshape(1, n, 1))
        B.append((e * (spike if k == 0 else 1.0)).reshape(1, n, 1))
    return teneva.add(A, B)


def check_tensor(c):
    res = Res()
    seed = c.get('seed', 0)
    Y = plateau(c['shape'], c['spike'], c['corner']) if c['pat'] == 'plateau' else space.tt_case(c, seed)
    if c['pat'] == 'plateau':
        c = dict(c, ranks=[1] + [2] * (len(c['shape']) - 1) + [1])
    Yb = ref.core_bytes(Y)
    A = ref.dense(Y)
    shape = list(A.shape)
    N = A.size
    exact = space.is_int_pat(c['pat']) or (c['pat'] == 'plateau' and float(c['spike']) == int(c['spike']))
    amax = float(np.abs(A).max())
    aabs = float(ref.dense_abs(Y).max())
    tmin, tmax = float(A.min()), float(A.max())
    eps = 0.0 if exact else 1e-9 * max(amax, 1e-300)
    rank1 = all(r == 1 for r in c['ranks'])
    ties = len(np.unique(np.abs(A))) < N
    tags = ['pat=' + c['pat'], 'rank1' if rank1 else 'rank>1']
    # is the representation non-minimal (some stored TT-rank exceeds the rank of the dense unfolding)?
    nonmin = False
    for kk in range(1, len(shape)):
        sv = ref.unfold_sv(A, kk)
        if int(np.sum(sv > 1e-10 * max(sv[0], 1e-300))) < c['ranks'][kk] or sv[0] == 0:
            nonmin = True
    if nonmin:
        tags.append('nonminimal-ranks')

    def val_ok(i, y):
        return abs(float(y) - float(A[tuple(int(x) for x in i)])) <= (0.0 if exact else 1e-12 * max(amax, 1e-300))

    for k in _ks(N):
        with warnings.catch_warnings():
            warnings.simplefilter('ignore')
            # --- beam, both directions -----------------------------------------------------
            for l2r in (True, False):
                res.ev()
                case = dict(c, k=k, fn='optima_tt_beam', l2r=l2r)
                i = teneva.optima_tt_beam(Y, k, l2r=l2r)
                if res.check(_inb(i, shape), 'beam.bounds', case, lambda: 'index %r' % (i,), tags):
                    if k >= N or rank1:
                        v = abs(float(A[tuple(i)]))
                        res.check(v >= amax - eps, 'beam.full', case,
                                  lambda: '|Y[i]| = %.12g < max|Y| = %.12g with k=%d, N=%d' % (v, amax, k, N), tags + ['full'])
                Iall = teneva.optima_tt_beam(Y, k, l2r=l2r, ret_all=True)
                good = (Iall.ndim == 2 and Iall.shape[1] == len(shape) and 1 <= Iall.shape[0] <= k
                        and np.all(Iall >= 0) and np.all(Iall < np.array(shape)))
                res.check(good, 'beam.ret_all', case, lambda: 'ret_all gave shape %s' % (Iall.shape,), tags)
                if good:
                    res.check(len({tuple(r) for r in Iall}) == len(Iall) and np.array_equal(Iall[0], i), 'beam.ret_all.distinct', case,
                              'candidates repeat or the first is not the best', tags)
                    if k >= N:
                        res.check(len(Iall) == N, 'beam.ret_all.complete', case, lambda: '%d of %d candidates kept' % (len(Iall), N), tags)
            # --- max modulus -----------------------------------------------------------------
            res.ev()
            case = dict(c, k=k, fn='optima_tt_max')
            i, y = teneva.optima_tt_max(Y, k)
            if res.check(_inb(i, shape) and val_ok(i, y), 'max.entry', case, lambda: 'i=%r y=%r' % (i, y), tags):
                if k >= N or rank1:
                    res.check(abs(y) >= amax - eps, 'max.full', case,
                              lambda: '|y| = %.12g < max|Y| = %.12g (k=%d, N=%d)' % (abs(y), amax, k, N), tags + ['full'])
            # --- min and max -----------------------------------------------------------------
            res.ev()
            case = dict(c, k=k, fn='optima_tt')
            i1, y1, i2, y2 = teneva.optima_tt(Y, k)
            ok = res.check(_inb(i1, shape) and _inb(i2, shape) and val_ok(i1, y1) and val_ok(i2, y2), 'tt.entry', case,
                           lambda: 'i_min=%r y_min=%r i_max=%r y_max=%r' % (i1, y1, i2, y2), tags)
            res.check(y1 <= y2, 'tt.order', case, lambda: 'y_min=%r > y_max=%r' % (y1, y2), tags)
            if ok and (k >= N or rank1):
                # fingerprint of finding F19: a rank-1 tensor, pruning active, the extreme of larger modulus is right and only the other one is missed
                second = ['rank1-second-extreme'] if (rank1 and k < N and max(abs(y1), abs(y2)) >= amax - eps) else []
                res.check(y1 <= tmin + eps and y2 >= tmax - eps, 'tt.full', case,
                          lambda: 'reported (min, max) = (%.12g, %.12g), true (%.12g, %.12g); k=%d N=%d' % (y1, y2, tmin, tmax, k, N),
                          tags + ['full'] + second)
            if k < N or ties:
                res.nt((c['shape'], c['ranks'], c['pat'], k))
            # --- maxvol variant: entries and order only --------------------------------------------
            if k <= 4 or k >= N:
                for how in ('smart', 'l2r', 'r2l', 'both'):
                    res.ev()
                    case = dict(c, k=k, fn='optima_tt_maxvol', how=how)
                    try:
                        j1, z1, j2, z2 = teneva.optima_tt_maxvol(Y, k, how=how)
                    except Exception as ex:
                        res.fail('maxvol.raised', case, '%s: %s' % (type(ex).__name__, str(ex)[:150]),
                                 tags + ['exception', 'exc=' + type(ex).__name__])
                        continue
                    j1, j2 = np.asarray(j1), np.asarray(j2)
                    okb = res.check(_inb(j1, shape) and _inb(j2, shape), 'maxvol.bounds', case, lambda: 'i_min=%r i_max=%r' % (j1, j2), tags)
                    if okb:
                        t = 1e-9 * max(amax, 1e-300) + 1e-13 * aabs
                        res.check(abs(z1 - A[tuple(j1)]) <= t and abs(z2 - A[tuple(j2)]) <= t, 'maxvol.entry', case,
                                  lambda: 'values (%r, %r) vs entries (%r, %r)' % (z1, z2, A[tuple(j1)], A[tuple(j2)]), tags)
                    res.check(z1 <= z2 + 1e-12 * max(amax, 1e-300) + 1e-13 * aabs, 'maxvol.order', case, lambda: 'min %r > max %r' % (z1, z2), tags)
                    if okb and k >= N:
                        # nothing can be pruned: every multi-index is a candidate, the reported extremes are the true ones
                        em = max(eps, 1e-9 * max(amax, 1e-300) + 1e-13 * aabs)      # this variant orthogonalises the tensor first: values carry rounding
                        res.check(z1 <= tmin + em and z2 >= tmax - em, 'maxvol.full', case,
                                  lambda: 'reported (min, max) = (%.12g, %.12g), true (%.12g, %.12g); k=%d N=%d how=%s' % (z1, z2, tmin, tmax, k, N, how),
                                  tags + ['full'])
    res.check(ref.core_bytes(Y) == Yb, 'input_untouched', c, 'tensor modified by an optimum search', tags)
    # equivalent argument forms: NumPy-integer k, integer-typed cores, Fortran-ordered cores
    if c.get('scaled'):
        with warnings.catch_warnings():
            warnings.simplefilter('ignore')
            for k in (1, 2, N + 1):
                res.ev()
                b0 = teneva.optima_tt(Y, k)
                forms = {'np.int64 k': (Y, np.int64(k)), 'fortran': ([np.asfortranarray(G) for G in Y], k)}
                if exact and c['pat'] != 'plateau':
                    forms['int-typed cores'] = ([G.astype(np.int64) for G in Y], k)
                for nm, (Yf, kf) in forms.items():
                    try:
                        b1 = teneva.optima_tt(Yf, kf)
                    except Exception as ex:
                        res.fail('forms.raised', dict(c, k=k, form=nm), 'optima_tt raised %s for the form %s' % (type(ex).__name__, nm), tags + ['forms'])
                        continue
                    res.check(abs(b1[1] - b0[1]) <= 1e-12 * max(amax, 1e-300) and abs(b1[3] - b0[3]) <= 1e-12 * max(amax, 1e-300), 'forms', dict(c, k=k, form=nm),
                              lambda: 'the form %s gives different optimum values %r vs %r' % (nm, (b1[1], b1[3]), (b0[1], b0[3])), tags + ['forms'])
    # extreme magnitudes: the optimum search must return the same entries, scaled
    if c.get('scaled'):
        for sc in (2.0 ** -400, 2.0 ** 400):
            Ys = [G * (sc if k == 0 else 1.0) for k, G in enumerate(Y)]
            for k in (1, N + 1):
                res.ev()
                case = dict(c, k=k, scale=sc)
                with warnings.catch_warnings():
                    warnings.simplefilter('ignore')
                    i1, y1, i2, y2 = teneva.optima_tt(Ys, k)
                    j, yj = teneva.optima_tt_max(Ys, k)
                ok = _inb(i1, shape) and _inb(i2, shape) and _inb(j, shape)
                if res.check(ok, 'scaled.bounds', case, 'index out of bounds', tags):
                    t = 1e-12 * amax
                    res.check(abs(y1 / sc - A[tuple(i1)]) <= t and abs(y2 / sc - A[tuple(i2)]) <= t and abs(yj / sc - A[tuple(j)]) <= t and y1 <= y2,
                              'scaled.entry', case, lambda: 'scaled by %g: values (%r, %r, %r) are not the scaled entries' % (sc, y1, y2, yj), tags)
                    if k >= N or rank1:
                        second = ['rank1-second-extreme'] if (rank1 and k < N and abs(yj) / sc >= amax - 1e-9 * amax and max(abs(y1), abs(y2)) / sc >= amax - 1e-9 * amax) else []
                        res.check(abs(yj) / sc >= amax - 1e-9 * amax and y1 / sc <= tmin + 1e-9 * amax and y2 / sc >= tmax - 1e-9 * amax, 'scaled.full', case,
                                  lambda: 'scaled by %g: optimum not found with k=%d' % (sc, k), tags + ['full'] + second)
    return res


def check_qtt(c):
    res = Res()
    seed = c.get('seed', 0)
    if c['pat'] == 'geom':          # outer product of geometric progressions: rank 1 as a TT-tensor AND as a QTT-tensor, so the search is exact for any k
        Y = [((-1.0) ** k_ * (1.5 + k_) * (c['rho'][k_] ** np.arange(n_))).reshape(1, n_, 1) for k_, n_ in enumerate(c['shape'])]
    else:
        Y = space.tt_case(c, seed)
    A = ref.dense(Y)
    shape = list(A.shape)
    N = A.size
    exact = space.is_int_pat(c['pat'])
    amax = float(np.abs(A).max())
    eps = 1e-9 * max(amax, 1e-300)
    for k in c['ks']:
        res.ev()
        case = dict(c, k=k, fn='optima_qtt')
        with warnings.catch_warnings():
            warnings.simplefilter('ignore')
            i1, y1, i2, y2 = teneva.optima_qtt(Y, k)
        ok = res.check(_inb(i1, shape) and _inb(i2, shape), 'qtt.bounds', case, lambda: 'i_min=%r i_max=%r' % (i1, i2))
        if not ok:
            continue
        t = 0.0 if exact else 1e-12 * max(amax, 1e-300)
        res.check(abs(y1 - A[tuple(i1)]) <= t and abs(y2 - A[tuple(i2)]) <= t, 'qtt.entry', case,
                  lambda: 'values (%r, %r) vs entries (%r, %r)' % (y1, y2, A[tuple(i1)], A[tuple(i2)]))
        res.check(y1 <= y2, 'qtt.order', case, 'min > max')
        if k >= N or c['pat'] == 'geom':          # nothing pruned, or a tensor of QTT-rank 1 (exact for any k)
            res.check(y1 <= A.min() + eps and y2 >= A.max() - eps, 'qtt.full', case,
                      lambda: '(min,max)=(%.12g,%.12g) true (%.12g,%.12g)' % (y1, y2, A.min(), A.max()), ['full'])
        res.nt((c['shape'], c['ranks'], c['pat'], k, 'qtt'))
    # non power of two / unequal modes are rejected
    for bad in ([3, 3], [2, 4], [6, 6]):
        res.ev()
        Z = space.tt(bad, [1, 2, 1], 'gen', seed)
        try:
            teneva.optima_qtt(Z, 3)
            got = None
        except ValueError:
            got = 'ValueError'
        except Exception as ex:
            got = type(ex).__name__
        res.check(got == 'ValueError', 'qtt.reject', dict(c, bad=bad), lambda: 'shape %s gave %r' % (bad, got))
    return res


def check_func(c):
    """Rank-1 coefficient tensors: the interpolant is a product of 1-D Chebyshev series."""
    res = Res()
    seed = c.get('seed', 0)
    n, d = c['n'], c['d']
    cheb = np.polynomial.chebyshev
    cfs = []
    for k in range(d):
        if c['kind'] == 'crafted':      # the location of the maximum modulus is sensitive to the size of the constant term
            v = np.array(c['vec'], dtype=float)
        elif c['kind'] == 'pure':
            v = np.zeros(n)
            v[c['js'][k]] = 1.0 + 0.5 * k
        else:
            v = space.core('gen', 1, n, 1, k, seed, tag=91 + c.get('tag', 0))[0, :, 0]
        cfs.append(v)
    A = [v.reshape(1, n, 1).copy() for v in cfs]
    if c.get('shared'):             # A = [G] * d: one ndarray object at every position
        cfs = [cfs[0]] * d
        A = [A[0]] * d
    Ab = ref.core_bytes(A)
    best = 1.0
    for v in cfs:
        xs = [-1.0, 1.0]
        dv = cheb.chebder(v) if len(v) > 1 else np.array([0.])
        if np.any(dv != 0):
            r = cheb.chebroots(dv)
            xs += [float(z.real) for z in np.atleast_1d(r) if abs(np.imag(z)) < 1e-9 and -1 <= z.real <= 1]
        best *= max(abs(cheb.chebval(x, v)) for x in xs)
    tags = ['kind=' + c['kind']]
    for k in c['ks']:
        res.ev()
        case = dict(c, k=k)
        try:
            with warnings.catch_warnings():
                warnings.simplefilter('ignore')
                x = teneva.optima_func_tt_beam(A, k)
        except Exception as ex:
            res.fail('func.raised', case, 'optima_func_tt_beam raised %s: %s' % (type(ex).__name__, str(ex)[:150]),
                     tags + ['exception'])
            continue
        x = np.asarray(x, dtype=float)
        if not res.check(x.shape == (d,) and np.all(np.isfinite(x)) and np.all(np.abs(x) <= 1 + 1e-12), 'func.cube', case,
                         lambda: 'point %r' % (x,), tags):
            continue
        f = float(np.prod([cheb.chebval(x[j], cfs[j]) for j in range(d)]))
        res.check(abs(f) >= (1 - 1e-6) * best - 1e-300, 'func.max', case,
                  lambda: '|f(x)| = %.12g < max modulus %.12g at x=%s' % (abs(f), best, x), tags + ['func'])
        res.nt((n, d, c['kind'], c.get('js'), c.get('tag'), k))
        for kloc in (None, 1, 2):
            res.ev()
            case2 = dict(c, k=k, k_loc=kloc, ret_all=True)
            try:
                with warnings.catch_warnings():
                    warnings.simplefilter('ignore')
                    X = np.asarray(teneva.optima_func_tt_beam(A, k, kloc, ret_all=True), dtype=float)
            except Exception as ex:
                res.fail('func.raised', case2, 'ret_all raised %s: %s' % (type(ex).__name__, str(ex)[:120]), tags + ['exception'])
                continue
            good = X.ndim == 2 and X.shape[1] == d and 1 <= X.shape[0] <= k and np.all(np.isfinite(X)) and np.all(np.abs(X) <= 1 + 1e-12)
            if res.check(good, 'func.ret_all', case2, lambda: 'ret_all gave shape %s' % (X.shape,), tags):
                f0 = abs(float(np.prod([cheb.chebval(X[0, j], cfs[j]) for j in range(d)])))
                fs = [abs(float(np.prod([cheb.chebval(xx[j], cfs[j]) for j in range(d)]))) for xx in X]
                res.check(f0 >= max(fs) * (1 - 1e-9) - 1e-300, 'func.ret_all.best_first', case2, 'the first returned point is not the best one', tags)
                if kloc is None or kloc >= 2 or True:
                    res.check(f0 >= (1 - 1e-6) * best - 1e-300, 'func.max', case2,
                              lambda: 'ret_all, k_loc=%s: best |f| %.12g < %.12g' % (kloc, f0, best), tags + ['func'])
    res.check(ref.core_bytes(A) == Ab, 'func.input_untouched', c, 'coefficient tensor modified', tags)
    return res


CHECKERS = {'tensor': check_tensor, 'qtt': check_qtt, 'func': check_func}


def strata(tier, seed):
    pats = ['intA', 'intB', 'sign', 'ones', 'gen'] if tier == 'quick' else ['intA', 'intB', 'intC', 'sign', 'ones', 'pos', 'nneg', 'gen']
    plan = [(2, [1, 2, 3], [1, 2, 3]), (3, [1, 2, 3], [1, 2]), (4, [1, 2], [1, 2])] if tier == 'quick' else \
        [(2, [1, 2, 3, 4], [1, 2, 3]), (3, [1, 2, 3], [1, 2, 3]), (4, [1, 2, 3], [1, 2])]
    cs = []
    for d, ns, rs in plan:
        for sh in space.shapes([d], ns):
            for rk in space.rank_profiles(d, rs):
                for pat in pats:
                    cs.append(dict(shape=sh, ranks=rk, pat=pat, seed=seed, scaled=(pat in ('gen', 'intA') and d <= 3)))
    for sh in ([3, 3, 3, 3], [4, 4, 4], [5, 5, 5, 5], [4, 4], [3, 3, 3]):
        for spike in (2.5, -2.5, 3.0, -3.0, 1.5):
            for corner in ('hi', 'lo'):
                cs.append(dict(shape=sh, pat='plateau', spike=spike, corner=corner, ranks=[], seed=seed))
    for sh, rk in (([2] * 6, [1, 2, 2, 2, 2, 2, 1]), ([2] * 8, [1, 2, 3, 3, 3, 3, 2, 2, 1]), ([3] * 5, [1, 3, 6, 6, 3, 1]), ([10, 10], [1, 7, 1]), ([17, 3, 2], [1, 3, 2, 1])):    # moderately large d / rank / mode
        cs.append(dict(shape=sh, ranks=rk, pat='gen', seed=seed, scaled=False))
    # one long mode next to short ones (the first / the last mode much larger than rank + 10: defaults of inner helpers would bind there)
    for sh, rk in (([32, 3], [1, 3, 1]), ([3, 32], [1, 3, 1]), ([24, 2, 2], [1, 2, 2, 1]), ([2, 2, 24], [1, 2, 2, 1]), ([40, 2], [1, 2, 1])):
        for pat in ('gen', 'intA'):
            cs.append(dict(shape=sh, ranks=rk, pat=pat, seed=seed, scaled=False))
    yield Stratum('tt optimum search', cs, 'tensor', size=len(cs), chunk=4, bounds={'k': '1..N+1 (N<=16) else {1,2,3,N,N+1}'})
    qs = []
    for d in (1, 2, 3) if tier != 'quick' else (2, 3):
        for q in (1, 2, 3):
            if d * q > (6 if tier == 'quick' else 8):
                continue
            for rk in space.rank_profiles(d, [1, 2, 3] if d <= 2 else [1, 2]) if d >= 2 else [[1, 1]]:
                for pat in ('intA', 'gen', 'sign'):
                    N = (2 ** q) ** d
                    qs.append(dict(shape=[2 ** q] * d, ranks=rk, pat=pat, ks=[1, 2, 5, N, N + 1], seed=seed))
    qs = [q for q in qs if len(q['shape']) >= 2]
    for n_ in (256, 512, 1024):              # rank 1 is exact for every k: long modes (q = 8, 9, 10 bits per index)
        for rho in ([1.003, 0.996], [0.997, 1.002], [1.001, 1.004]):
            qs.append(dict(shape=[n_, n_], ranks=[1, 1, 1], pat='geom', rho=rho, ks=[1, 3], seed=seed))
    yield Stratum('quantised optimum search', qs, 'qtt', seq=(tier == 'quick'), size=len(qs), chunk=2, bounds={'q': [1, 3]})
    fs = []
    for d in (2, 3):
        for n in (2, 3, 4, 5):
            for js in itertools.product(range(n), repeat=d):
                fs.append(dict(n=n, d=d, kind='pure', js=list(js), ks=list(range(1, 11)), seed=seed))
            for tag in range(3 if tier == 'quick' else 8):
                fs.append(dict(n=n, d=d, kind='gen', tag=tag, ks=list(range(1, 11)), seed=seed))
                fs.append(dict(n=n, d=d, kind='gen', tag=tag, ks=[1, 3, 10], seed=seed, shared=True))
    dl = 4e-7
    edge = [[3 - (1 + dl) ** 2 - 0.5, 2 * (1 + dl), -0.5], [3 - (1 + dl) ** 2 - 0.5, -2 * (1 + dl), -0.5],          # stationary point 4e-7 outside the cube, maximum on the border
            [3 - (1 - dl) ** 2 - 0.5, 2 * (1 - dl), -0.5],                                                              # ... 4e-7 inside it
            [1.0, 0.0, -0.6, 0.0, 0.1], [0.2, 0.0, 1.0, 0.0, 0.3], [-1.0, 0.0, 0.4]]                                   # even factors: a critical point exactly at 0
    for vec in ([-0.3, 1.0, 0.5], [0.3, 1.0, -0.5], [-0.6, 0.5, 0.5, 0.2], [0.45, -1.0, 0.4], [-0.2, 0.0, 1.0], [0.7, 1.0]) + tuple(edge):
        for d in (2, 3, 4):
            for shared in (False, True):
                fs.append(dict(n=len(vec), d=d, kind='crafted', vec=vec, ks=[1, 2, 5], seed=seed, shared=shared))
    yield Stratum('functional optimum search (rank 1)', fs, 'func', size=len(fs), chunk=8, bounds={'n': [2, 5], 'k': [1, 10]})
