"""C08 - maxvol / maxvol_rect.

Mode G on the iteration (maxvol(A, e, k) for k = 0, 1, 2, ... are the successive
states of one deterministic run, so the iteration graph is observable without a
hook) + mode L over matrices x e x every (dr_min, dr_max)."""
import itertools
import warnings

import numpy as np
import teneva

from mc import ref, space
from mc.engine import Res, Stratum, digest

ID = 'C08'
REGISTERED = True
TECHNIQUE = ('explicit-state exploration of the maxvol iteration graph (limit k = 0,1,2,... are the successive '
             'states) with invariants on every state and brute-force swap/volume oracle at the fixpoint; '
             'exhaustive lattice over matrices x e x all (dr_min, dr_max)')
LEVEL_TEXT = ('all iteration states of every catalogue matrix are visited and checked (A = B A[I], B[I] = I, '
              'volume growth per transition, dominance at the fixpoint by brute force over all single-row '
              'swaps); the rectangular variant is run for every (dr_min, dr_max) including inconsistent ones')
LEVEL_NOTE = ('bounded: r <= 3 (4), n <= r+4 (6); matrices from a structural catalogue (generic, integer, '
              'graded to cond 1e8, duplicate/zero rows); cond(A[I]) > 1e10 is skipped; LAPACK trusted')
LEVEL = 'model_checking'
RULE = ('matrices = product(r, n = r+1..r+4(6), structural kind {generic, integer, column-graded '
        'to cond 1e4/1e8, duplicated row, zero row, all remaining rows zero, all remaining rows '
        'duplicates}); for each: every e in the list, EVERY iteration limit k = 0..fixpoint+2 '
        '(iteration state graph), EVERY (dr_min, dr_max) in 0..n-r+1 incl. None and inconsistent '
        'pairs. States = (k, I, B bytes); transitions = one more maxvol iteration / one rect call. '
        'Non-trivial: the matrix passed the conditioning guard and the iteration made >= 1 swap '
        'or the rect call added >= 1 row.')
ASSUMPTIONS = [
    'full column rank, cond(A[I]) <= 1e10 (otherwise counted as skipped, never failed)',
    'values from the structural catalogue + one generic pattern per VERIF_SEED',
    'LAPACK LU / triangular solves trusted',
]

KMAX = 60


def matrix(c, seed):
    r, n, kind = c['r'], c['n'], c['kind']
    G = space.core('gen', 1, n, r, 3, seed, tag=c.get('tag', 0))[0]      # (n, r)
    if kind == 'gen':
        A = G
    elif kind == 'int':
        i, j = np.meshgrid(np.arange(n), np.arange(r), indexing='ij')
        A = (((i + 1) ** (j + 1) + 2 * i * j) % 7 - 3).astype(float)
    elif kind in ('grad4', 'grad8'):
        p = 4 if kind == 'grad4' else 8
        D = 10.0 ** (-p * np.arange(r) / max(1, r - 1))
        A = G * D
    elif kind == 'duprow':
        A = G.copy()
        A[n - 1] = A[0]
    elif kind == 'zerorow':
        A = G.copy()
        A[n - 1] = 0
    elif kind == 'restzero':      # only r non-zero rows
        A = G.copy()
        A[r:] = 0
    elif kind == 'restdup':       # remaining rows duplicate the first ones
        A = G.copy()
        for t in range(r, n):
            A[t] = A[(t - r) % r]
    elif kind in ('illc6', 'illc8'):       # genuinely ill-conditioned (not a column scaling): prescribed singular values
        p = 6 if kind == 'illc6' else 8
        Q1, _ = np.linalg.qr(G)
        H = space.core('gen', 1, r, r, 4, seed, tag=9)[0] + 2 * np.eye(r)
        Q2, _ = np.linalg.qr(H)
        sv = 10.0 ** (-p * np.arange(r) / max(1, r - 1))
        A = (Q1 * sv) @ Q2.T
    elif kind in ('sign', 'signneg'):      # entries +-1: exact ties of modulus everywhere (Hadamard-like design matrices); a row that is the
        i, j = np.meshgrid(np.arange(n), np.arange(r), indexing='ij')      # exact negative of another one
        A = np.where(((i * (2 * j + 1) + (i // 2) * j + (i * i) // 3) % 2) == 0, 1.0, -1.0)
        A[:, 0] = 1.0
        if kind == 'signneg' and n > r:
            A[n - 1] = -A[0]
    elif kind == 'perm':          # rows permuted so that the best rows come last
        A = G[::-1].copy()
    else:
        raise ValueError(kind)
    return np.array(A, dtype=float)


def _vol(A, I):
    return abs(np.linalg.det(A[list(I)]))


def _basic(res, case, A, I, B, tags, what):
    """Clauses common to both functions; returns (ok, cond)."""
    n, r = A.shape
    I = np.asarray(I)
    okI = (I.dtype.kind in 'iu' and I.ndim == 1 and np.all(I >= 0) and np.all(I < n))
    res.check(okI, what + '.range', case, lambda: 'I=%r' % (I,), tags)
    if not okI:
        return False, None
    dis = len(set(I.tolist())) == len(I)
    res.check(dis, what + '.distinct', case, lambda: 'row numbers repeat: I=%s' % I.tolist(),
              tags + ['duplicate-rows'])
    if not dis:
        return False, None
    if not res.check(B.shape == (n, len(I)) and np.all(np.isfinite(B)), what + '.shapeB', case,
                     lambda: 'B shape %s, finite=%s' % (B.shape, np.all(np.isfinite(B))), tags):
        return False, None
    sub = A[I]
    cond = np.linalg.cond(sub) if len(I) == r else np.linalg.cond(sub.T @ sub) ** 0.5
    if not np.isfinite(cond) or cond > 1e10:
        res.skip('cond(A[I]) > 1e10')
        return True, None
    nrm = max(np.linalg.norm(A), 1e-300)
    resid = np.linalg.norm(A - B @ sub)
    # B comes from triangular solves and rank-one updates, all backward stable: the residual is small relative to
    # |B| |A[I]| whatever the conditioning (an explicit inverse would give cond * eps here)
    bound = 256 * 2.0 ** -53 * max(len(I), 4) * np.sqrt(B.shape[0]) * float(np.linalg.norm(B)) * float(np.linalg.norm(sub))
    res.check(resid <= bound + 1e-300, what + '.A=B*A[I]', case,
              lambda: 'residual %.3e > backward-stable bound %.3e (cond %.2e, |A| %.2e)' % (resid, bound, cond, nrm), tags)
    dev = np.abs(B[I] - np.eye(len(I))).max()
    tolI = 0.0 if what == 'rect' else 1e-12 * (1 + cond)
    res.check(dev <= tolI, what + '.B[I]=eye', case, lambda: 'max|B[I]-eye| = %.3e' % dev, tags)
    return True, cond


def check_signs(c):
    """EVERY matrix with entries +-1 of the given size, in a block of the enumeration (bit t of the code = entry t, row-major): exact ties
    of modulus in every column, multipliers +-1 in the elimination, rows that are negatives of each other."""
    res = Res()
    n, r = c['n'], c['r']
    for code in range(c['lo'], c['hi']):
        res.ev()
        A = np.array([1.0 if (code >> t) & 1 else -1.0 for t in range(n * r)]).reshape(n, r)
        if np.linalg.matrix_rank(A) < r:
            res.skip('rank-deficient sign matrix')
            continue
        case = dict(n=n, r=r, lo=code, hi=code + 1, _checker='signs')
        with warnings.catch_warnings():
            warnings.simplefilter('ignore')
            I, B = teneva.maxvol(A, 1.05, 1000)
        ok, cond = _basic(res, case, A, I, B, ['kind=allsigns'], 'maxvol')
        if ok and cond is not None:
            res.check(np.abs(B).max() <= 1.05 * (1 + 1e-12), 'maxvol.dominant', case, lambda: 'max|B| = %r > e' % np.abs(B).max(), ['kind=allsigns'])
        if c.get('rect'):
            with warnings.catch_warnings():
                warnings.simplefilter('ignore')
                I2, B2 = teneva.maxvol_rect(A, 1.1, 1, 2)
            _basic(res, dict(case, rect=True), A, I2, B2, ['kind=allsigns'], 'rect')
        res.nt((n, r, code))
    return res


def check_maxvol(c):
    res = Res()
    seed = c.get('seed', 0)
    A = matrix(c, seed)
    n, r = A.shape
    A0 = A.copy()
    tags = ['kind=' + c['kind']]
    if np.linalg.matrix_rank(A) < r:
        res.ev()
        res.skip('rank-deficient catalogue matrix')
        return res
    for e in c['es']:
        prev = None
        fix_k = None
        swaps = 0
        for k in (range(0, KMAX) if not c.get('huge') else [0, 1, 2, 3, 10, 40]):
            case = dict(c, e=e, k=k)
            res.ev()
            with warnings.catch_warnings():
                warnings.simplefilter('ignore')
                I, B = teneva.maxvol(A, e, k)
            res.check(np.array_equal(A, A0), 'maxvol.noinput_mutation', case, 'A was modified', tags)
            key = (tuple(int(x) for x in I), B.tobytes())
            res.state((c['r'], c['n'], c['kind'], e, key[0], digest(key[1])))
            ok, cond = _basic(res, case, A, I, B, tags, 'maxvol')
            if not ok:
                break
            if prev is not None:
                res.tr()
                if prev[0] != key[0]:
                    swaps += 1
                    v0, v1 = _vol(A, prev[0]), _vol(A, key[0])
                    if cond is not None:
                        res.check(v1 > e * v0 * (1 - 1e-9), 'maxvol.volume_grows', case,
                                  lambda: 'volume %.6e -> %.6e, factor %.6f <= e=%.3f' % (v0, v1, v1 / v0, e), tags)
                elif prev == key:
                    fix_k = k - 1
            if fix_k is not None:
                break
            prev = key
        if fix_k is None or c.get('huge'):
            res.skip('no fixpoint within the explored iteration limits' if not c.get('huge') else 'huge matrix: invariants on the explored states only')
            continue
        res.outcome('fix@%d' % fix_k)
        if swaps:
            res.nt(dict(c, e=e))
        # at the fixpoint and for every larger limit
        for k in (fix_k, fix_k + 1, fix_k + 2, 100, None):
            case = dict(c, e=e, k=k, fix=fix_k)
            res.ev()
            with warnings.catch_warnings():
                warnings.simplefilter('ignore')
                I, B = teneva.maxvol(A, e, k) if k is not None else teneva.maxvol(A, e)
            res.check((tuple(int(x) for x in I), B.tobytes()) == prev, 'maxvol.fixpoint_stable', case,
                      'state changes after the fixpoint', tags)
            mx = np.abs(B).max()
            res.check(mx <= e * (1 + 1e-9), 'maxvol.maxB<=e', case,
                      lambda: 'max|B| = %.9f > e = %.3f (limit not hit: fixpoint at k=%d)' % (mx, e, fix_k), tags)
        cond = np.linalg.cond(A[I])
        if cond <= 1e10:
            v0 = _vol(A, I)
            worst = 0.0
            for j in range(r):
                for i in range(n):
                    J = list(I)
                    J[j] = i
                    if len(set(J)) < r:
                        continue
                    worst = max(worst, _vol(A, J) / v0)
            res.check(worst <= e * (1 + 1e-7) + 1e-9 * cond * 1e-3, 'maxvol.no_better_swap', case,
                      lambda: 'a single row swap enlarges the volume by %.9f > e=%.3f' % (worst, e), tags)
            if c.get('brute') and n <= 8:
                best = max(_vol(A, J) for J in itertools.combinations(range(n), r))
                res.check(v0 * (e ** r) * (r ** (r / 2.0)) * (1 + 1e-7) >= best, 'maxvol.near_global', case,
                          lambda: 'volume %.3e vs best %.3e' % (v0, best), tags)
    # rejections
    for shape in ((r, r), (r, r + 1), (1, 1), (max(1, r - 1), r)):
        res.ev()
        W = space.core('gen', 1, shape[0], shape[1], 5, seed)[0]
        try:
            teneva.maxvol(W)
            got = None
        except ValueError:
            got = 'ValueError'
        except Exception as ex:
            got = type(ex).__name__
        res.check(got == 'ValueError', 'maxvol.reject_wide', dict(c, wide=list(shape)),
                  lambda: 'wide/square input %s: %r' % (shape, got), tags)
    return res


def check_rect(c):
    res = Res()
    seed = c.get('seed', 0)
    A = matrix(c, seed)
    n, r = A.shape
    A0 = A.copy()
    tags = ['kind=' + c['kind']]
    if np.linalg.matrix_rank(A) < r:
        res.ev()
        res.skip('rank-deficient catalogue matrix')
        return res
    top = n - r + 1
    if c.get('huge'):
        drs = [(0, None), (1, 2), (0, 0), (2, 1)]
    elif c.get('big'):
        drs = [(0, None), (0, 0), (1, 3), (3, 3), (0, 7), (top - 1, top - 1), (top, top), (-1, 2), (2, 1)]
    else:
        drs = [(a, b) for a in range(-1, top + 1) for b in list(range(0, top + 1)) + [None]]
    for e in c['es']:
        for (dmin, dmax) in drs:
            case = dict(c, e=e, dr_min=dmin, dr_max=dmax)
            res.ev()
            r_min = r + dmin
            r_max = min(n, r + dmax) if dmax is not None else n
            bad = (dmin < 0) or (r_min > r_max)
            got = None
            e0, k0 = [(1.05, 10), (1.01, 100), (2.0, 1), (1.05, 0)][(len(drs) + (dmin + 3) * 7 + (0 if dmax is None else dmax)) % 4]
            case = dict(case, e0=e0, k0=k0)
            try:
                with warnings.catch_warnings():
                    warnings.simplefilter('ignore')
                    I, B = teneva.maxvol_rect(A, e, dmin, dmax, e0, k0)
            except ValueError:
                got = 'ValueError'
            except Exception as ex:
                got = type(ex).__name__ + ':' + str(ex)[:80]
            if bad:
                res.check(got == 'ValueError', 'rect.reject', case,
                          lambda: 'inconsistent dr_min/dr_max gave %r' % (got,), tags)
                continue
            if not res.check(got is None, 'rect.accept', case, lambda: 'raised %r' % (got,), tags):
                continue
            res.tr()
            res.state((c['r'], c['n'], c['kind'], e, dmin, dmax, tuple(int(x) for x in I)))
            res.check(np.array_equal(A, A0), 'rect.noinput_mutation', case, 'A was modified', tags)
            cnt = len(I)
            tg = tags + (['forced-growth'] if dmin > 0 else [])
            res.check(r_min <= cnt <= r_max, 'rect.count', case,
                      lambda: '%d rows, allowed [%d, %d]' % (cnt, r_min, r_max), tg)
            ok, cond = _basic(res, case, A, I, B, tg, 'rect')
            if not ok:
                continue
            if cnt < r_max and cond is not None:
                rn = np.linalg.norm(B, axis=1).max()
                res.check(rn <= e * (1 + 1e-9), 'rect.rownorm<=e', case,
                          lambda: 'stopped at %d < %d rows with a row norm %.9f > e=%.3f' % (cnt, r_max, rn, e), tg)
            res.outcome('rows+%d' % (cnt - r))
            if cnt > r:
                res.nt(case)
    # the dispatcher used by cross
    for (dmin, dmax) in ([(0, 0), (0, 1), (1, 1), (1, 2), (2, 2), (0, 5), (5, 5)] if not c.get('huge') else [(1, 2)]):
        for AA, nm in ((A, 'tall'), (A[:r], 'square'), (A[:max(1, r - 1)], 'wide')):
            case = dict(c, disp=nm, dr_min=dmin, dr_max=dmax)
            res.ev()
            with warnings.catch_warnings():
                warnings.simplefilter('ignore')
                I, B = teneva._maxvol(AA, 1.1, dmin, dmax)
            nn, rr = AA.shape
            if nn <= rr:
                res.check(list(I) == list(range(nn)) and np.array_equal(B, np.eye(nn)), 'disp.identity', case,
                          'n <= r must give the identity selection', tags)
            else:
                lo = rr + min(dmin, min(dmax, nn - rr))
                hi = rr + min(dmax, nn - rr)
                res.check(lo <= len(I) <= hi and len(set(I.tolist())) == len(I), 'disp.count', case,
                          lambda: '%d rows (I=%s), allowed [%d,%d]' % (len(I), I.tolist(), lo, hi),
                          tags + (['forced-growth'] if dmin > 0 else []))
                if np.linalg.cond(AA[I].T @ AA[I]) < 1e16:
                    rs = np.linalg.norm(AA - B @ AA[I])
                    res.check(rs <= 1e-9 * max(1, np.linalg.norm(AA)), 'disp.A=B*A[I]', case,
                              lambda: 'residual %.3e' % rs, tags)
    return res


def check_forms(c):
    """Equivalent argument forms: Fortran-ordered / strided / integer-typed matrices, NumPy scalars for e, k, dr_min, dr_max."""
    res = Res()
    seed = c.get('seed', 0)
    A = matrix(c, seed)
    if c['kind'] == 'int':
        Ai = A.astype(np.int64)
    n, r = A.shape
    big = np.zeros((2 * n, 2 * r))
    view = big[::2, ::2]
    view[...] = A
    forms = {'fortran': np.asfortranarray(A), 'strided': view}
    if c['kind'] == 'int':
        forms['int64'] = A.astype(np.int64)
    if np.linalg.matrix_rank(A) < r:
        res.ev()
        res.skip('rank-deficient catalogue matrix')
        return res
    for e in (1.01, 1.5):
        res.ev()
        I0, B0 = teneva.maxvol(A, e, 50)
        J0, C0 = teneva.maxvol_rect(A, e, 1, 2)
        for nm, X in forms.items():
            Xb = X.tobytes()
            with warnings.catch_warnings():
                warnings.simplefilter('ignore')
                I1, B1 = teneva.maxvol(X, e, 50)
                J1, C1 = teneva.maxvol_rect(X, e, 1, 2)
            res.check(np.array_equal(I1, I0) and np.abs(B1 - B0).max() <= 1e-10 and np.array_equal(J1, J0) and np.abs(C1 - C0).max() <= 1e-10, 'forms.matrix',
                      dict(c, e=e, form=nm), lambda: 'the %s form of the matrix gives a different selection / coefficient matrix' % nm, ['forms'])
            res.check(X.tobytes() == Xb, 'forms.untouched', dict(c, e=e, form=nm), 'the %s matrix was modified' % nm, ['forms'])
        with warnings.catch_warnings():
            warnings.simplefilter('ignore')
            I2, B2 = teneva.maxvol(A, np.float64(e), np.int64(50))
            J2, C2 = teneva.maxvol_rect(A, np.float64(e), np.int64(1), np.int32(2))
        res.check(np.array_equal(I2, I0) and np.array_equal(B2, B0) and np.array_equal(J2, J0) and np.array_equal(C2, C0), 'forms.numpy_scalars', dict(c, e=e),
                  'NumPy scalars for e / k / dr_min / dr_max change the result', ['forms'])
    res.nt(('forms', c['r'], c['n'], c['kind']))
    return res


CHECKERS = {'signs': check_signs, 'maxvol': check_maxvol, 'rect': check_rect, 'forms': check_forms}

KINDS = ['gen', 'int', 'grad4', 'grad8', 'illc6', 'illc8', 'duprow', 'zerorow', 'restzero', 'restdup', 'perm', 'sign', 'signneg']


def _cases(tier, seed):
    rs = [1, 2, 3] if tier == 'quick' else [1, 2, 3, 4]
    up = 4 if tier == 'quick' else 6
    es = [1.0, 1.01, 1.05, 1.5, 2.0] if tier == 'quick' else [1.0, 1.01, 1.02, 1.05, 1.1, 1.5, 2.0, 3.0]      # e = 1 exactly: the tolerance at its limit
    tagsv = [0] if tier == 'quick' else [0, 1, 2]
    out = []
    for r in rs:
        for n in range(r + 1, r + up + 1):
            for kind in KINDS:
                for tag in (tagsv if kind not in ('int',) else [0]):
                    out.append(dict(r=r, n=n, kind=kind, es=es, seed=seed, tag=tag,
                                    brute=(tier != 'quick')))
    for (n, r) in ((200, 5), (64, 8), (33, 2), (1000, 3), (3000, 100), (1500, 200), (6000, 50)):
        for kind in (('gen', 'grad8', 'illc8', 'duprow', 'zerorow') if n * r < 10 ** 5 else ('gen',)):
            out.append(dict(r=r, n=n, kind=kind, es=[1.01, 1.5] if n * r < 10 ** 5 else [1.05], seed=seed, tag=0, brute=False, big=True, huge=(n * r >= 10 ** 5)))
    return out


def strata(tier, seed):
    cs = _cases(tier, seed)
    yield Stratum('maxvol-iteration-graph', [dict(c) for c in cs], 'maxvol', size=len(cs), chunk=2,
                  bounds={'r': sorted({c['r'] for c in cs}), 'n-r': [1, max(c['n'] - c['r'] for c in cs)],
                          'k': 'every limit 0..fixpoint+2, 100, default', 'e': cs[0]['es']})
    fm = [dict(c) for c in cs if not c.get('huge') and c['n'] - c['r'] >= 2 and c.get('tag', 0) == 0]
    sg = []
    for (n_, r_) in (((3, 2), (4, 2), (5, 2), (4, 3), (5, 3)) if tier == 'quick' else ((3, 2), (4, 2), (5, 2), (6, 2), (7, 2), (4, 3), (5, 3), (6, 3), (5, 4))):
        tot = 2 ** (n_ * r_)
        step = 1024 if tot > 1024 else tot
        for lo in range(0, tot, step):
            sg.append(dict(n=n_, r=r_, lo=lo, hi=min(tot, lo + step), rect=(n_ * r_ <= 12)))
    yield Stratum('every +-1 matrix of small size', sg, 'signs', size=len(sg), chunk=1, bounds={'sizes': 'n x r up to 5 x 3 (6 x 3, 5 x 4 thorough)', 'matrices': sum(x['hi'] - x['lo'] for x in sg)})
    yield Stratum('argument forms', fm, 'forms', seq=True, size=len(fm), chunk=4, bounds={'forms': ['fortran', 'strided', 'int64', 'numpy scalars']})
    yield Stratum('rect-all-dr-pairs', [dict(c) for c in cs], 'rect', size=len(cs), chunk=2,
                  bounds={'dr_min': '-1..n-r+1', 'dr_max': '0..n-r+1 and None'})
