"""C12 - Chebyshev interpolation is exact on polynomials of degree below the grid size.

Mode L with the basis argument: every routine involved is linear in the data, so checking it
on EVERY monomial prod x_k^{p_k}, p_k < n_k (a basis of the exactness class) plus sums of them
(TT-rank > 1) decides it on the whole class up to rounding."""
import itertools
import warnings

import numpy as np
import teneva

from mc import ref, space
from mc.engine import Res, Stratum

ID = 'C12'
REGISTERED = True
LEVEL = 'exploration'
TECHNIQUE = ('exhaustive lattice enumeration over boxes x grid sizes x EVERY monomial of the exactness class (a basis; the '
             'routines are linear) x evaluation-point catalogue, against exact polynomial arithmetic; TT and dense '
             'implementations cross-checked; sine kind: transform / re-sampling pair')
LEVEL_TEXT = ('for each box and grid size every basis element of the polynomial exactness class is pushed through '
              'func_int / func_get / func_gets / func_sum / func_diff_matrix / func_int_general and their dense twins and '
              'compared with the closed-form value, integral and derivative; by linearity this covers all polynomials of the class')
LEVEL_NOTE = ('bounded: d <= 3, grid sizes 2..5 (8 thorough), box catalogue incl. per-dimension mixes; tolerance 1e-12 relative '
              'to max|x|^degree (1e-9 for second derivatives); float rounding of the FFT/DCT trusted to that level')
RULE = ('cases = product(box, grid shape, monomial exponent vector p < n); per case all clauses at all catalogue points. '
        'Non-trivial: monomial of total degree >= 1 (the constant is trivial); distinct = (box, shape, p).')
ASSUMPTIONS = ['func_int_general: the basis callable follows the func_basis convention (functions x points), which is what func_get(funcs=...) consumes',
               'grid sizes n >= 2 (a Chebyshev grid of one node is not a grid)']

BOXES = {
    'sym1': (-1.0, 1.0), 'unit': (0.0, 1.0), 'asym': (-2.0, 3.0), 'tiny': (1e-3, 2e-3), 'far': (5.0, 7.0), 'sym3': (-3.0, 3.0), 'odd1': (-0.3, 1.1), 'odd2': (0.1, 0.7),
}


def nodes(a, b, n):
    i = np.arange(n)
    return np.cos(np.pi * i / (n - 1)) * (b - a) / 2 + (b + a) / 2


def mono(x, p):
    return np.asarray(x, dtype=float) ** p


def points(a, b, n):
    xs = list(nodes(a, b, n))
    nd = nodes(a, b, n)
    xs += list((nd[:-1] + nd[1:]) / 2)
    xs += [a, b]
    xs += [a + (b - a) * ((np.sqrt(2) * k) % 1.0) for k in (1, 2, 3)]
    # the catalogue is of points OF THE BOX: an end node of a box with non-binary bounds may round one ulp outside it (0.3 + 0.4 > 0.7),
    # where the fill value is the promised answer; such nodes are moved onto the bound
    return np.clip(np.array(xs), a, b)


def tol(a, b, p, c=1e-12):
    M = max(abs(a), abs(b), 1e-300)
    return c * max(M ** p, (b - a) ** p if p else 1.0, 1e-300) * (1 + p) ** 2


def check_mono(c):
    res = Res()
    shape = c['shape']
    d = len(shape)
    box = c['box']
    ab = [BOXES[bk] for bk in box]
    a = [x[0] for x in ab]
    b = [x[1] for x in ab]
    tags = ['box=' + '/'.join(box)]
    plist = list(itertools.product(*[range(n) for n in shape]))
    if c.get('few'):
        plist = sorted({tuple(min(n - 1, q) for n in shape) for q in (0, 1, 2, 5, 10 ** 6)} | {tuple((n - 1) if k == j else 0 for k, n in enumerate(shape)) for j in range(d)})
    for p in plist:
        case = dict(c, p=list(p))
        res.ev()
        # node values: rank-1 TT and dense
        vecs = [mono(nodes(a[k], b[k], shape[k]), p[k]) for k in range(d)]
        Yd = vecs[0]
        for v in vecs[1:]:
            Yd = np.multiply.outer(Yd, v)
        T = float(np.prod([tol(a[k], b[k], p[k]) for k in range(d)])) / (1e-12 ** (d - 1))
        # evaluation points: product catalogue restricted to a diagonal walk (all points per dimension are used)
        P = [points(a[k], b[k], shape[k]) for k in range(d)]
        L = max(len(x) for x in P)
        X = np.array([[P[k][(j * (k + 1)) % len(P[k])] for k in range(d)] for j in range(L)])
        want = np.prod([mono(X[:, k], p[k]) for k in range(d)], axis=0)
        Xout = X[:4].copy()
        Xout[0, 0] = a[0] - 0.1 * (b[0] - a[0])
        Xout[1, -1] = b[-1] + 0.1 * (b[-1] - a[-1])
        Xout[2, 0] = a[0] - 1e-9 * (b[0] - a[0]) - 1e-98
        integ = float(np.prod([(b[k] ** (p[k] + 1) - a[k] ** (p[k] + 1)) / (p[k] + 1) for k in range(d)]))
        Ti = T * float(np.prod([max(b[k] - a[k], 1e-300) for k in range(d)])) * 10
        symmetric = all(abs(abs(b[k]) - abs(a[k])) <= 1e-16 for k in range(d))
        with warnings.catch_warnings():
            warnings.simplefilter('ignore')
            # ---- dense routines ---------------------------------------------------------
            Ad = teneva.func_int_full(Yd)
            got = teneva.func_get_full(X, Ad, a, b)
            res.check(np.abs(got - want).max() <= T, 'full.get', case,
                      lambda: 'func_get_full deviates by %.3e (tol %.1e)' % (np.abs(got - want).max(), T), tags)
            z = teneva.func_get_full(Xout, Ad, a, b, z=-7.5)
            res.check(np.all(z[:3] == -7.5), 'full.outside', case, lambda: 'outside points got %s' % z[:3], tags)
            # a batch in another order, with repeated points and with outside points in between: value by value the same answers
            pick = list(range(len(X)))[::-1] + [0, 0, len(X) - 1]
            Xm = np.vstack([X[pick[:2]], Xout[:1], X[pick[2:]], Xout[1:2]])
            wm = np.concatenate([got[pick[:2]], [-7.5], got[pick[2:]], [-7.5]])
            gm = teneva.func_get_full(Xm, Ad, a, b, z=-7.5)
            res.check(np.array_equal(gm, wm), 'full.batch_order', case, 'func_get_full on a reordered batch with repeats and outside points differs row by row', tags)
            for zi in (0, -7, np.int64(3)):                                  # integer-typed fill value: inside points untouched, outside get it
                gi = teneva.func_get_full(np.vstack([X, Xout[:3]]), Ad, a, b, z=zi)
                res.check(np.abs(gi[:len(X)] - want).max() <= T and np.all(gi[len(X):] == zi), 'full.fill_int', dict(case, z=int(zi)),
                          lambda: 'func_get_full with integer fill value deviates by %.3e' % np.abs(gi[:len(X)] - want).max(), tags)
            try:
                sv = teneva.func_sum_full(Ad, a, b)
                raised = False
            except ValueError:
                raised = True
            if symmetric:
                res.check(not raised and abs(sv - integ) <= Ti, 'full.sum', case,
                          lambda: 'func_sum_full %r vs exact %.12g' % (None if raised else sv, integ), tags)
            else:
                res.check(raised, 'full.sum.reject', case, 'asymmetric box accepted by func_sum_full', tags)
            for m in c['ms']:
                newv = [mono(nodes(-1., 1., m) * (b[k] - a[k]) / 2 + (b[k] + a[k]) / 2, p[k]) for k in range(d)]
                Wd = newv[0]
                for v in newv[1:]:
                    Wd = np.multiply.outer(Wd, v)
                Zd = teneva.func_gets_full(Ad, a, b, m)
                res.check(Zd.shape == Wd.shape and np.abs(Zd - Wd).max() <= T, 'full.gets', dict(case, m=m),
                          lambda: 'func_gets_full(m=%d) deviates by %.3e' % (m, np.abs(Zd - Wd).max()), tags)
            if d >= 2:
                # ---- TT routines ----------------------------------------------------------
                Y = [v.reshape(1, -1, 1).copy() for v in vecs]
                A = teneva.func_int(Y)
                res.check(ref.wellformed(A, shape) is None, 'tt.int.shape', case, 'coefficient tensor malformed', tags)
                res.check(np.abs(ref.dense(A) - Ad).max() <= T, 'tt=dense', case,
                          lambda: 'func_int and func_int_full differ by %.3e' % np.abs(ref.dense(A) - Ad).max(), tags)
                got = teneva.func_get(X, A, a, b)
                res.check(np.abs(got - want).max() <= T, 'tt.get', case,
                          lambda: 'func_get deviates by %.3e (tol %.1e)' % (np.abs(got - want).max(), T), tags)
                g1 = teneva.func_get(X[1:2], A, a, b)
                res.check(np.shape(g1) == (1,) and abs(g1[0] - want[1]) <= T, 'tt.get.one_row', case, lambda: 'a one-row batch gave shape %s' % (np.shape(g1),), tags)
                one = teneva.func_get(X[1], A, a, b)
                res.check(np.ndim(one) == 0 and abs(one - want[1]) <= T, 'tt.get.single', case, 'single point differs', tags)
                z = teneva.func_get(Xout, A, a, b, z=-7.5)
                res.check(np.all(z[:3] == -7.5), 'tt.outside', case, lambda: 'outside points got %s' % z[:3], tags)
                wm2 = np.concatenate([got[pick[:2]], [-7.5], got[pick[2:]], [-7.5]])
                gm2 = teneva.func_get(Xm, A, a, b, z=-7.5)
                res.check(np.array_equal(gm2, wm2), 'tt.batch_order', case, 'func_get on a reordered batch with repeats and outside points differs row by row', tags)
                for zi in (0, -7, np.int64(3)):
                    gi = teneva.func_get(np.vstack([X, Xout[:3]]), A, a, b, z=zi)
                    res.check(np.abs(gi[:len(X)] - want).max() <= T and np.all(gi[len(X):] == zi), 'tt.fill_int', dict(case, z=int(zi)),
                              lambda: 'func_get with integer fill value deviates by %.3e' % np.abs(gi[:len(X)] - want).max(), tags)
                sv = teneva.func_sum(A, a, b)
                res.check(abs(sv - integ) <= Ti, 'tt.sum', case, lambda: 'func_sum %.12g vs exact %.12g' % (sv, integ), tags)
                for m in c['ms']:
                    Z = teneva.func_gets(A, m)
                    newv = [mono(nodes(-1., 1., m) * (b[k] - a[k]) / 2 + (b[k] + a[k]) / 2, p[k]) for k in range(d)]
                    Wd = newv[0]
                    for v in newv[1:]:
                        Wd = np.multiply.outer(Wd, v)
                    okz = ref.wellformed(Z, [m] * d) is None
                    res.check(okz and np.abs(ref.dense(Z) - Wd).max() <= T, 'tt.gets', dict(case, m=m),
                              lambda: 'func_gets(m=%d) deviates' % m, tags)
                Z = teneva.func_gets(A)
                res.check(np.abs(ref.dense(Z) - Yd).max() <= T, 'tt.inverse', case, 'func_gets(func_int(Y)) != Y', tags)
        if sum(p) >= 1:
            res.nt((box, shape, p))
    return res


def check_linear(c):
    """Sums of monomials (TT-rank > 1), the general (least-squares) transform, derivatives, sine kind."""
    res = Res()
    seed = c.get('seed', 0)
    n = c['n']
    box = c['box']
    a, b = BOXES[box]
    d = c['d']
    tags = ['box=' + box]
    x = nodes(a, b, n)
    # --- differentiation matrices on every monomial ---------------------------------------
    with warnings.catch_warnings():
        warnings.simplefilter('ignore')
        D1 = teneva.func_diff_matrix(a, b, n)
        D12 = teneva.func_diff_matrix(a, b, n, m=2) if n >= 2 else None
    for q in range(n):
        res.ev()
        case = dict(c, q=q)
        y = mono(x, q)
        d1 = q * mono(x, q - 1) if q >= 1 else 0 * x
        d2 = q * (q - 1) * mono(x, q - 2) if q >= 2 else 0 * x
        M = max(abs(a), abs(b))
        t1 = 1e-11 * max(M ** max(q - 1, 0), 1e-300) * (1 + q) ** 2 * n ** 2 * max(1.0, M / (b - a)) ** 2
        t2 = 1e-9 * max(M ** max(q - 2, 0), 1e-300) * (1 + q) ** 3 * n ** 4 * max(1.0, M / (b - a)) ** 3
        res.check(np.abs(D1 @ y - d1).max() <= t1, 'diff.1', case,
                  lambda: 'first derivative of x^%d off by %.3e (tol %.1e)' % (q, np.abs(D1 @ y - d1).max(), t1), tags)
        res.check(isinstance(D12, list) and len(D12) == 2 and np.abs(D12[0] - D1).max() == 0, 'diff.list', case,
                  'func_diff_matrix(m=2) does not return [D1, D2] with the same D1', tags)
        if isinstance(D12, list) and len(D12) == 2:
            res.check(np.abs(D12[1] @ y - d2).max() <= t2, 'diff.2', case,
                      lambda: 'second derivative of x^%d off by %.3e (tol %.1e)' % (q, np.abs(D12[1] @ y - d2).max(), t2), tags)
        if q >= 1:
            res.nt((box, n, 'diff', q))
    if d < 2:
        return res
    # --- a generic polynomial of the class as a TT-tensor of rank 2/3: linearity -------------
    rk = c['rank']
    coef = space.core('gen', rk, n, d, 0, seed, tag=71)          # (rk, n, d): term t, power q, variable k
    cores = []
    for k in range(d):
        vals = np.array([np.polynomial.polynomial.polyval(x, coef[t, :, k]) for t in range(rk)])     # (rk, n)
        if k == 0:
            G = vals.T.reshape(1, n, rk)
        elif k == d - 1:
            G = vals.reshape(rk, n, 1)
        else:
            G = np.zeros((rk, n, rk))
            for t in range(rk):
                G[t, :, t] = vals[t]
        cores.append(G.copy())

    def f(X):
        X = np.atleast_2d(X)
        out = np.zeros(len(X))
        for t in range(rk):
            out += np.prod([np.polynomial.polynomial.polyval(X[:, k], coef[t, :, k]) for k in range(d)], axis=0)
        return out
    M = max(abs(a), abs(b), 1.0)
    T = 1e-11 * M ** ((n - 1) * d) * rk * n ** d
    P = points(a, b, n)
    X = np.array([[P[(j * (k + 1)) % len(P)] for k in range(d)] for j in range(len(P))])
    res.ev()
    case = dict(c)
    with warnings.catch_warnings():
        warnings.simplefilter('ignore')
        A = teneva.func_int(cores)
        got = teneva.func_get(X, A, a, b)
        res.check(np.abs(got - f(X)).max() <= T, 'linear.get', case,
                  lambda: 'rank-%d polynomial: func_get off by %.3e (tol %.1e)' % (rk, np.abs(got - f(X)).max(), T), tags)
        integ = 0.0
        for t in range(rk):
            term = 1.0
            for k in range(d):
                P1 = np.polynomial.polynomial.polyint(coef[t, :, k])
                term *= np.polynomial.polynomial.polyval(b, P1) - np.polynomial.polynomial.polyval(a, P1)
            integ += term
        sv = teneva.func_sum(A, a, b)
        res.check(abs(sv - integ) <= T * (b - a) ** d * 10, 'linear.sum', case, lambda: 'func_sum %.12g vs %.12g' % (sv, integ), tags)
        Z = teneva.func_gets(A)
        res.check(np.abs(ref.dense(Z) - ref.dense(cores)).max() <= T, 'linear.inverse', case, 'func_gets(func_int(Y)) != Y', tags)
        # extreme magnitudes of the data (any absolute tolerance hidden in the code shows here): everything scales exactly
        for sc in (2.0 ** -100, 2.0 ** 100):
            res.ev()
            cs_ = [cores[0] * sc] + cores[1:]
            As = teneva.func_int(cs_)
            gs = teneva.func_get(X, As, a, b)
            res.check(np.abs(gs / sc - got).max() <= 1e-13 * max(1.0, np.abs(got).max()), 'linear.scaled.get', dict(case, scale=sc),
                      lambda: 'data scaled by %g: func_get does not scale (dev %.3e)' % (sc, np.abs(gs / sc - got).max()), tags)
            ss = teneva.func_sum(As, a, b)
            res.check(abs(ss / sc - sv) <= 1e-13 * max(1.0, abs(sv)) + T * (b - a) ** d, 'linear.scaled.sum', dict(case, scale=sc), 'func_sum does not scale', tags)
            Zs = teneva.func_gets(As, 3)
            Z1 = teneva.func_gets(A, 3)
            res.check(np.abs(ref.dense(Zs) / sc - ref.dense(Z1)).max() <= 1e-13 * max(1.0, np.abs(ref.dense(Z1)).max()), 'linear.scaled.gets', dict(case, scale=sc),
                      'func_gets does not scale', tags)
            Fd = teneva.func_int_full(ref.dense(cs_))
            res.check(np.abs(Fd / sc - ref.dense(A)).max() <= 1e-12 * max(1.0, np.abs(ref.dense(A)).max()), 'linear.scaled.full', dict(case, scale=sc),
                      'func_int_full does not scale', tags)
        # equivalent argument forms: bounds as lists / arrays / NumPy scalars, points as lists, Fortran-ordered / integer-typed cores
        res.ev()
        bad = []
        g0 = teneva.func_get(X, A, a, b)
        gt = 1e-13 * (1 + np.abs(g0).max())
        for nm, (af, bf_) in (('lists', ([a] * d, [b] * d)), ('arrays', (np.array([a] * d), np.array([b] * d))), ('np.float64', (np.float64(a), np.float64(b))), ('list+scalar', ([a] * d, b))):
            if not np.array_equal(teneva.func_get(X, A, af, bf_), g0):
                bad.append('bounds as ' + nm)
        if not np.array_equal(teneva.func_get(X.tolist(), A, a, b), g0):
            bad.append('points as lists')
        # another memory layout of the same numbers may change the order of the floating-point sums inside BLAS / einsum: rounding level only
        if np.abs(teneva.func_get(np.asfortranarray(X), [np.asfortranarray(G) for G in A], a, b) - g0).max() > gt:
            bad.append('Fortran-ordered points and cores')
        if abs(teneva.func_sum(A, [a] * d, np.array([b] * d)) - sv) > 1e-13 * (1 + abs(sv)) + T * (b - a) ** d:
            bad.append('func_sum with list / array bounds')
        Zf = teneva.func_gets(A, [3] * d)
        Zg = teneva.func_gets(A, 3.0)
        Zh = teneva.func_gets(A, np.array([3] * d))
        if not ref.core_bytes(Zf) == ref.core_bytes(Zg) == ref.core_bytes(Zh):
            bad.append('grid size as list / float / array')
        ci = [np.round(G * 4).astype(np.int64) for G in cores]
        cf = [np.round(G * 4) for G in cores]
        if all(np.abs(G).max() < 2.0 ** 52 for G in cf) and not all(np.abs(x - y_).max() <= 1e-13 * (1 + np.abs(y_).max()) for x, y_ in zip(teneva.func_int(ci), teneva.func_int(cf))):
            bad.append('integer-typed cores')
        if np.abs(ref.dense(cf)).max() < 2.0 ** 52 and \
                np.abs(teneva.func_int_full(ref.dense(cf).astype(np.int64)) - teneva.func_int_full(ref.dense(cf))).max() > 1e-12 * (1 + np.abs(ref.dense(cf)).max()):
            bad.append('integer-typed dense values')
        res.check(not bad, 'forms', case, lambda: 'an equivalent form changes the result: ' + ', '.join(bad), tags)
        # additivity / homogeneity of the coefficient transform
        A2 = teneva.func_int([2.5 * cores[0]] + cores[1:])
        res.check(np.abs(ref.dense(A2) - 2.5 * ref.dense(A)).max() <= T, 'linear.homogeneous', case, 'func_int not homogeneous', tags)
        # general least-squares transform with Chebyshev and monomial bases
        for bname in ('cheb', 'mono'):
            res.ev()
            case2 = dict(c, basis=bname)
            if bname == 'cheb':
                bf = lambda xx: teneva.func_basis(teneva.poi_scale(np.asarray(xx, dtype=float).reshape(-1, 1), a, b, 'cheb'), n)[:, :, 0]
            else:
                sc = max(abs(a), abs(b))
                bf = lambda xx: np.array([(np.asarray(xx, dtype=float).reshape(-1) / sc) ** j for j in range(n)])
            b0 = ref.core_bytes(cores)
            try:
                Ag = teneva.func_int_general(cores, x, bf)
            except Exception as ex:
                res.fail('general.raised', case2, 'func_int_general raised %s: %s' % (type(ex).__name__, str(ex)[:150]),
                         tags + ['general', 'exception'])
                continue
            res.check(ref.core_bytes(cores) == b0, 'general.input_untouched', case2, 'func_int_general modified its argument', tags)
            okg = ref.wellformed(Ag, [n] * d) is None
            res.check(okg, 'general.shape', case2, 'malformed result', tags)
            if okg:
                gotg = teneva.func_get(X, Ag, a, b, funcs=[bf] * d)
                cond = np.linalg.cond(bf(x).T)
                res.check(np.abs(gotg - f(X)).max() <= T * max(1.0, cond) * 10, 'general.get', case2,
                          lambda: 'custom basis %s: reproduction off by %.3e' % (bname, np.abs(gotg - f(X)).max()), tags + ['general'])
                if bname == 'cheb':
                    res.check(np.abs(ref.dense(Ag) - ref.dense(A)).max() <= T * max(1.0, cond) * 10, 'general=cheb', case2,
                              'least-squares Chebyshev coefficients differ from func_int', tags)
                # per-core point sets (2-D X argument)
                Ag2 = teneva.func_int_general(cores, np.array([x] * d), bf)
                res.check(np.abs(ref.dense(Ag2) - ref.dense(Ag)).max() <= T * max(1.0, cond), 'general.X2d', case2,
                          '1-D and 2-D point arguments differ', tags)
        # different node sets per core (2-D X with different rows): values of the same polynomial on a non-tensor-uniform grid
        res.ev()
        xs = [a + (b - a) * (0.5 - 0.5 * np.cos(np.pi * (np.arange(n) + 0.5 * (k % 2) * 0.7) / (n - 0.3 + 0.3 * (k % 2)))) ** (1.0 + 0.35 * k) for k in range(d)]
        cores2 = []
        for k in range(d):
            vals = np.array([np.polynomial.polynomial.polyval(xs[k], coef[t, :, k]) for t in range(rk)])
            if k == 0:
                G = vals.T.reshape(1, n, rk)
            elif k == d - 1:
                G = vals.reshape(rk, n, 1)
            else:
                G = np.zeros((rk, n, rk))
                for t in range(rk):
                    G[t, :, t] = vals[t]
            cores2.append(G.copy())
        sc2 = max(abs(a), abs(b))
        bf2 = lambda xx: np.array([(np.asarray(xx, dtype=float).reshape(-1) / sc2) ** j for j in range(n)])
        case3 = dict(c, basis='mono', nodes='per-core')
        try:
            Ag3 = teneva.func_int_general(cores2, np.array(xs), bf2)
            got3 = teneva.func_get(X, Ag3, a, b, funcs=[bf2] * d)
            cond3 = max(np.linalg.cond(bf2(xk).T) for xk in xs)
            res.check(np.abs(got3 - f(X)).max() <= T * max(1.0, cond3) * 100, 'general.per_core_nodes', case3,
                      lambda: 'per-core node sets: reproduction off by %.3e' % np.abs(got3 - f(X)).max(), tags + ['general'])
        except Exception as ex:
            res.fail('general.raised', case3, 'func_int_general (2-D X) raised %s: %s' % (type(ex).__name__, str(ex)[:150]), tags + ['general', 'exception'])
        # sine kind: transform / re-sampling pair
        res.ev()
        S = teneva.func_int(cores, 'sin')
        Zs = teneva.func_gets(S, None, 'sin')
        res.check(np.abs(ref.dense(Zs) - ref.dense(cores)).max() <= 1e-12 * max(1.0, np.abs(ref.dense(cores)).max()) * n ** d,
                  'sin.inverse', dict(c, kind='sin'), 'sine transform is not inverted by re-sampling on the same grid', tags)
        for m in c['ms']:
            xs = np.linspace(0, np.pi, m + 2)[1:-1]
            Zm = teneva.func_gets(S, m, 'sin')
            W = None
            Sd = ref.dense(S)
            mats = [np.sin(np.outer(xs, np.arange(1, n + 1))) for _ in range(d)]
            W = Sd
            for k in range(d):
                W = np.moveaxis(np.tensordot(mats[k], np.moveaxis(W, k, 0), axes=(1, 0)), 0, k)
            res.check(ref.wellformed(Zm, [m] * d) is None and np.abs(ref.dense(Zm) - W).max() <= 1e-12 * max(1.0, np.abs(W).max()) * n ** d,
                      'sin.gets', dict(c, kind='sin', m=m), 'sine re-sampling differs from the explicit sine series', tags)
    res.nt((box, n, d, rk))
    return res


def check_faces(c):
    """Points exactly on the faces and corners of the box belong to the box: for every box of a decimal lattice (most bounds are not binary
    fractions) the dense and the TT routine return the function value there, not the fill value."""
    res = Res()
    a, b = c['a'], c['b']
    d = len(a)
    n = 3
    xs = [nodes(a[k], b[k], n) for k in range(d)]
    f1 = [1.0 + 0.5 * xs[k] + 0.25 * xs[k] ** 2 for k in range(d)]          # degree 2 < n in every variable
    Yd = f1[0]
    for v in f1[1:]:
        Yd = np.multiply.outer(Yd, v)
    with warnings.catch_warnings():
        warnings.simplefilter('ignore')
        Ad = teneva.func_int_full(Yd)
        A = teneva.func_int([v.reshape(1, -1, 1).copy() for v in f1]) if d >= 2 else None
    pts = np.array(list(itertools.product(*[(a[k], b[k], (a[k] + b[k]) / 2) for k in range(d)])))
    want = np.prod([1.0 + 0.5 * pts[:, k] + 0.25 * pts[:, k] ** 2 for k in range(d)], axis=0)
    tol = 1e-12 * max(1.0, np.abs(want).max())
    res.ev()
    with warnings.catch_warnings():
        warnings.simplefilter('ignore')
        g = teneva.func_get_full(pts, Ad, a, b, z=-777.0)
    res.check(np.abs(g - want).max() <= tol, 'faces.full', c, lambda: 'func_get_full on faces / corners: %s, exact %s' % (g.tolist(), want.tolist()))
    if A is not None:
        with warnings.catch_warnings():
            warnings.simplefilter('ignore')
            g2 = teneva.func_get(pts, A, a, b, z=-777.0)
        res.check(np.abs(g2 - want).max() <= tol, 'faces.tt', c, lambda: 'func_get on faces / corners: %s, exact %s' % (g2.tolist(), want.tolist()))
    # the dense integration accepts symmetric boxes only: a box that is ALMOST symmetric (relative asymmetry 1e-6 ... 1e-9) is either rejected
    # or integrated correctly, never silently integrated as if it were symmetric; the TT routine integrates any box
    exact_int = float(np.prod([(b[k] - a[k]) + 0.5 * (b[k] ** 2 - a[k] ** 2) / 2 + 0.25 * (b[k] ** 3 - a[k] ** 3) / 3 for k in range(d)]))
    res.ev()
    try:
        with warnings.catch_warnings():
            warnings.simplefilter('ignore')
            sv = teneva.func_sum_full(Ad, a, b)
        res.check(abs(sv - exact_int) <= 1e-11 * max(1.0, abs(exact_int)), 'faces.sum_full', c,
                  lambda: 'func_sum_full accepted the box and returned %r, exact integral %r' % (sv, exact_int))
    except ValueError:
        res.ok('faces.sum_full')
    if A is not None:
        with warnings.catch_warnings():
            warnings.simplefilter('ignore')
            st = teneva.func_sum(A, a, b)
        res.check(abs(st - exact_int) <= 1e-11 * max(1.0, abs(exact_int)), 'faces.sum_tt', c, lambda: 'func_sum %r, exact integral %r' % (st, exact_int))
    res.nt((tuple(a), tuple(b)))
    return res


def check_shared(c):
    """Value tensors whose equal cores are ONE ndarray object (a sum of products on equal grids): the same coefficients as for separate copies."""
    res = Res()
    d, n = c['d'], c['n']
    x = nodes(-1.0, 1.0, n)
    v = 1.0 + 0.5 * x - 0.25 * x ** 2
    G0 = np.stack([v, np.ones(n)], axis=1).reshape(1, n, 2)
    Gm = np.zeros((2, n, 2))
    Gm[0, :, 0], Gm[1, :, 1], Gm[0, :, 1] = 1.0, 1.0, v
    Gd = np.stack([np.ones(n), v], axis=0).reshape(2, n, 1)
    for kind in ('cheb', 'sin'):
        res.ev()
        shared = [G0] + [Gm] * (d - 2) + [Gd]
        copies = [G0.copy()] + [Gm.copy() for _ in range(d - 2)] + [Gd.copy()]
        b0 = ref.core_bytes(shared)
        with warnings.catch_warnings():
            warnings.simplefilter('ignore')
            A1 = teneva.func_int(shared, kind)
            A2 = teneva.func_int(copies, kind)
        res.check(ref.core_bytes(A1) == ref.core_bytes(A2) and ref.core_bytes(shared) == b0 and len({id(G) for G in A1}) == d, 'shared.func_int', dict(c, kind=kind),
                  'func_int of a train with one core object at several positions differs from the same values in separate arrays (or its output cores are one object)')
        if kind == 'cheb':
            with warnings.catch_warnings():
                warnings.simplefilter('ignore')
                Z1 = teneva.func_gets(A1, n)
            res.check(np.abs(ref.dense(Z1) - ref.dense(copies)).max() <= 1e-12 * (1 + np.abs(ref.dense(copies)).max()), 'shared.roundtrip', dict(c, kind=kind),
                      'func_gets(func_int(Y)) does not return Y for a train with shared core objects')
    res.nt((d, n))
    return res


def check_high(c):
    """High orders on larger grids (n = 31 ... 65): the Chebyshev polynomial T_j of every order j < n as the function (monomials of such
    degrees are numerically useless as a basis): coefficients are the unit vector, evaluation / re-sampling reproduce cos(j arccos t)."""
    res = Res()
    n, d = c['n'], c['d']
    a, b = BOXES[c['box']]
    x = nodes(a, b, n)
    t = np.clip((2 * x - (a + b)) / (b - a), -1.0, 1.0)
    pts = np.array([a + (b - a) * ((np.sqrt(3) * k) % 1.0) for k in range(1, 12)] + [a, b, (a + b) / 2])
    tp = np.clip((2 * pts - (a + b)) / (b - a), -1.0, 1.0)
    for j in c['js']:
        res.ev()
        case = dict(c, js=[j])
        vals = np.cos(j * np.arccos(t))
        tol = 1e-11 * (1 + j) ** 2
        with warnings.catch_warnings():
            warnings.simplefilter('ignore')
            if d == 1:
                Ad = teneva.func_int_full(vals)
                coef = Ad
                got = teneva.func_get_full(pts.reshape(-1, 1), Ad, a, b)
                Z = teneva.func_gets_full(Ad, a, b, n + 3)
                want = np.cos(j * np.arccos(tp))
            else:
                y1 = nodes(a, b, 3)
                w1 = 1.0 + 0.5 * y1
                A = teneva.func_int([vals.reshape(1, n, 1), w1.reshape(1, 3, 1)])
                X2 = np.stack([pts, np.full(len(pts), (a + b) / 2)], axis=1)
                got = teneva.func_get(X2, A, a, b)
                Z = ref.dense(teneva.func_gets(A, [n + 3, 3]))[:, 1] / (1.0 + 0.5 * (a + b) / 2)
                want = np.cos(j * np.arccos(tp)) * (1.0 + 0.5 * (a + b) / 2)
        e_j = np.zeros(n)
        e_j[j] = 1.0
        if d == 1:
            res.check(np.abs(coef - e_j).max() <= tol, 'high.coeff', case, lambda: 'coefficients of T_%d deviate from the unit vector by %.3e' % (j, np.abs(coef - e_j).max()))
        res.check(np.abs(got - want).max() <= tol * max(1.0, np.abs(want).max()), 'high.get', case,
                  lambda: 'T_%d on a grid of %d nodes: evaluation deviates by %.3e' % (j, n, np.abs(got - want).max()))
        xm = nodes(a, b, n + 3)
        tm = np.clip((2 * xm - (a + b)) / (b - a), -1.0, 1.0)
        res.check(np.abs(np.asarray(Z).reshape(-1) - np.cos(j * np.arccos(tm))).max() <= tol, 'high.gets', case,
                  lambda: 'T_%d re-sampled onto %d nodes deviates by %.3e' % (j, n + 3, np.abs(np.asarray(Z).reshape(-1) - np.cos(j * np.arccos(tm))).max()))
        res.nt((n, d, c['box'], j))
    return res


CHECKERS = {'high': check_high, 'shared': check_shared, 'faces': check_faces, 'mono': check_mono, 'linear': check_linear}


def strata(tier, seed):
    top = 5 if tier == 'quick' else 6
    cs = []
    single = list(BOXES)
    for d in (1, 2, 3):
        ns = range(2, (top if d < 3 else 4) + 1)
        for shape in itertools.product(ns, repeat=d):
            boxes = [[bk] * d for bk in single]
            if d >= 2:
                boxes += [['sym1', 'asym', 'far'][:d], ['tiny', 'unit', 'sym3'][:d], ['odd1', 'odd2', 'asym'][:d]]
            if tier == 'quick' and d == 3:
                boxes = [['sym1'] * 3, ['asym'] * 3, ['sym1', 'asym', 'far'], ['odd1', 'odd2', 'far']]
            for box in boxes:
                cs.append(dict(shape=list(shape), box=box, ms=[2, 3, 7] if tier == 'quick' else [2, 3, 4, 5, 6, 7], seed=seed))
    if tier != 'quick':
        for n in (7, 8):
            for box in single:
                cs.append(dict(shape=[n], box=[box], ms=[2, 9], seed=seed))
                cs.append(dict(shape=[n, 3], box=[box] * 2, ms=[2, 9], seed=seed))
    for box in (['sym1'], ['asym']):
        cs.append(dict(shape=[6], box=box, ms=[130, 200, 257], few=True, seed=seed))           # re-sampling onto large grids
        cs.append(dict(shape=[4, 3], box=box * 2, ms=[130], few=True, seed=seed))
    for n in (9, 16, 17, 33):
        for box in (['sym1'], ['asym'], ['unit']):
            cs.append(dict(shape=[n], box=box, ms=[2, n + 3], few=True, seed=seed))
            cs.append(dict(shape=[n, 4], box=box * 2, ms=[3], few=True, seed=seed))
    hi = [dict(n=n_, d=d_, box=bx, js=sorted({0, 1, 2, 15, 16, 17, 30, 31, 32, 33, n_ - 2, n_ - 1} & set(range(n_))) if tier == 'quick' else list(range(n_)))
          for n_ in ((31, 32, 33, 40, 65) if tier == 'quick' else (17, 31, 32, 33, 34, 40, 63, 64, 65, 100, 129)) for d_ in (1, 2) for bx in ('sym1', 'asym', 'odd2')]
    yield Stratum('high orders on larger grids (Chebyshev polynomials as the functions)', hi, 'high', seq=(tier == 'quick'), size=len(hi), chunk=2, bounds={'n': [31, 65 if tier == 'quick' else 129]})
    dec = [-3.0, -1.1, -0.7, -0.3, 0.0, 0.1, 0.2, 0.3, 0.6, 0.7, 0.9, 1.1, 2.3]
    pairs = [(x, y) for x in dec for y in dec if x < y]
    near = [(-1.0, 1.000004), (-1.0, 1.0 + 1e-9), (-300.0, 300.002), (-2.5, 2.5 * (1 - 3e-7)), (-1.0, 1.0), (-0.5, 0.5)]
    sh = [dict(d=d_, n=n_) for d_ in (3, 4, 5) for n_ in (3, 4, 6)]
    yield Stratum('value tensors with one core object at several positions', sh, 'shared', seq=True, size=len(sh), chunk=4, bounds={'d': [3, 5]})
    fc = [dict(a=[x], b=[y]) for x, y in near] + [dict(a=[x, -1.0], b=[y, 1.0]) for x, y in near] + [dict(a=[x], b=[y]) for x, y in pairs] + [dict(a=[x, pairs[(j * 7 + 3) % len(pairs)][0]], b=[y, pairs[(j * 7 + 3) % len(pairs)][1]]) for j, (x, y) in enumerate(pairs)]
    yield Stratum('faces and corners of every box of a decimal lattice', fc, 'faces', seq=True, size=len(fc), chunk=8, bounds={'bounds': dec})
    yield Stratum('all monomials', cs, 'mono', size=len(cs), chunk=4, bounds={'d': [1, 3], 'n': [2, top]})
    ls = [dict(n=n, box=bk, d=d, rank=rk, ms=[2, 3, 7], seed=seed)
          for n in range(2, (6 if tier == 'quick' else 9)) for bk in single for d in (1, 2, 3) for rk in (2, 3)
          if not (d == 1 and rk == 3)]
    yield Stratum('linearity / general / diff / sine', ls, 'linear', seq=(tier == 'quick'), size=len(ls), chunk=4, bounds={})
