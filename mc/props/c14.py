"""C14 - samplers draw from exactly the distribution their TT-tensor defines.

Mode T: the random generator is the only source of nondeterminism and the library
accepts any object as `seed`; a ScriptedGenerator records every probability vector it
is handed and returns the index the explorer dictates, so the explorer forces the
sampler down EVERY branch of its choice tree and multiplies the recorded conditionals."""
import itertools
import warnings

import numpy as np
import teneva

from mc import ref, space
from mc.engine import Res, Stratum, digest
from mc.env import Exhausted, HarnessError, ScriptedGenerator

ID = 'C14'
REGISTERED = True
LEVEL = 'model_checking'
TECHNIQUE = ('stateless choice-tree exploration with a scripted random generator passed as `seed`: every multi-index '
             'path of every catalogue tensor is forced, the product of the recorded conditional probability vectors is '
             'compared with the dense tensor; all answers of the generator for the Latin-hypercube sampler on small cases; '
             'lattice enumeration with real generators for the structural clauses')
LEVEL_TEXT = ('the probability claim is decided exactly (no statistics): for every tensor of a finite catalogue every leaf of '
              'the sampler\'s choice tree is visited and its path probability equals entry/sum (resp. entry^2/norm^2); '
              'rows drawn together are shown not to influence each other on all pairs of paths of the smallest tensors')
LEVEL_NOTE = ('bounded: d <= 4, n <= 3, ranks <= 3 (m <= 2 rows for path pairs); trusted: numpy.random.Generator.choice(p=...) '
              'draws according to p; generic values from VERIF_SEED, integer patterns with zero entries and zero slices')
RULE = ('tensors = product(shape, rank profile, pattern); per tensor the complete choice tree of sample (m=1) and '
        'sample_square (m=1, unique=False): states = tree nodes (script prefixes), transitions = draws, leaves = multi-indices. '
        'LHS: all n in {1..4}^d, m <= 12 with seeds 0..4 and, for m <= 4, every scripted answer. Non-trivial: a leaf with '
        'positive probability whose path product was compared (distinct = (tensor, multi-index)).')
ASSUMPTIONS = ['Generator.choice draws according to the p it is given',
               'the library uses only choice / shuffle / permutation / uniform / normal of the generator (any other method is a harness error)',
               'sample: entries and all partial sums non-negative (the documented domain: a discrete probability tensor)']


def build(c, seed):
    pat = c['pat']
    if pat == 'sq':
        X = space.tt(c['shape'], c['ranks'], 'gen', seed, tag=51)
        return teneva.mul(X, X)
    if pat == 'zslice':       # a whole slice of mode 1 is zero
        Y = space.tt(c['shape'], c['ranks'], 'pos', seed)
        if Y[min(1, len(Y) - 1)].shape[1] > 1:
            Y[min(1, len(Y) - 1)][:, 0, :] = 0
        return Y
    return space.tt(c['shape'], c['ranks'], pat, seed, tag=51)


def _menu_answers(menu):
    kind = menu[0]
    if kind == 'choice':
        _, n, cnt, rep = menu
        if rep:
            return [list(a) for a in itertools.product(range(n), repeat=cnt)]
        return [list(a) for a in itertools.permutations(range(n), cnt)]
    if kind == 'perm':
        return [list(a) for a in itertools.permutations(range(menu[1]))]
    raise HarnessError('unknown menu %r' % (menu,))


def explore_tree(call, on_leaf, on_node=None, prune=None, limit=200000):
    """Generic DFS over the answers of the scripted generator."""
    stack = [[]]
    leaves = nodes = 0
    while stack:
        script = stack.pop()
        g = ScriptedGenerator(script, explore=True)
        try:
            with warnings.catch_warnings():
                warnings.simplefilter('ignore')
                out = call(g)
        except Exhausted as ex:
            nodes += 1
            if on_node:
                on_node(script, g)
            if prune is not None and prune(script, g):
                continue
            for a in reversed(_menu_answers(ex.menu)):
                stack.append(script + [a])
            if nodes > limit:
                raise HarnessError('choice tree larger than the limit')
            continue
        leaves += 1
        on_leaf(script, g, out)
    return nodes, leaves


def _path_prob(log, rows=1):
    """Product of recorded conditionals per row for sample / sample_square with m rows."""
    return log


def check_sample(c):
    res = Res()
    seed = c.get('seed', 0)
    Y = build(c, seed)
    Yb = ref.core_bytes(Y)
    A = ref.dense(Y)
    shape = list(A.shape)
    d = len(shape)
    total = float(A.sum())
    tags = ['sample', 'pat=' + c['pat']]
    if A.min() < -1e-12 or total <= 0:
        res.ev()
        res.skip('tensor not a probability tensor')
        return res
    seen = {}
    uns = c.get('unsert', 1e-10)
    n0 = shape[0]
    tol = 1e-12 + 1.01 * uns * (1 + n0) / total

    def pvec_ok(pv):
        return pv is not None and np.all(np.isfinite(pv)) and np.all(pv >= 0) and abs(pv.sum() - 1) < 1e-9

    def prefix_prob(script, g):
        pr = 1.0
        for k, ans in enumerate(script):
            pv = g.log[k][4]
            if pv is None or not np.all(np.isfinite(pv)):
                return None
            pr *= pv[ans[0] if isinstance(ans, list) else ans]
        return pr

    def prune(script, g):
        pr = prefix_prob(script, g)
        if pr is None or pr <= 1e-13:
            # zero-probability branch: everything below must be (numerically) zero in the tensor
            idx = tuple(a[0] if isinstance(a, list) else a for a in script)
            sub = A[idx] if idx else A
            res.check(np.abs(sub).sum() <= 1e-8 * total, 'sample.zero_branch', dict(c, prefix=list(idx)),
                      lambda: 'branch %s has recorded probability %r but entries sum to %.3e' % (idx, pr, np.abs(sub).sum()), tags)
            return True
        return False

    def on_node(script, g):
        res.state(digest((c['shape'], c['ranks'], c['pat'], 'sample', uns, script)))
        res.tr()

    def on_leaf(script, g, out):
        res.ev()
        idx = tuple(a[0] if isinstance(a, list) else a for a in script)
        case = dict(c, index=list(idx), fn='sample')
        good = isinstance(out, np.ndarray) and out.shape == (1, d) and out.dtype.kind in 'iu' and tuple(out[0]) == idx
        res.check(good, 'sample.result', case, lambda: 'returned %r for forced path %s' % (out, idx), tags)
        if prefix_prob(script, g) is not None:
            ok = all(pvec_ok(e[4]) for e in g.log if e[0] == 'choice')
            res.check(ok, 'sample.pvec', case, 'a probability vector handed to the generator is not a distribution', tags)
        pr = prefix_prob(script, g)
        want = float(A[idx]) / total
        if pr is None:
            # the last conditional is 0/0: reachable only through the `unsert` regulariser of an all-zero slice
            res.check(want <= tol, 'sample.zero_branch', case, 'undefined conditional on a branch with positive mass', tags)
            seen[idx] = 0.0
            return
        res.check(abs(pr - want) <= tol + 1e-9 * want, 'sample.prob', case,
                  lambda: 'path probability %r, entry/sum = %.12g (unsert=%g)' % (pr, want, uns), tags + ['prob'])
        seen[idx] = pr
        if want > 0:
            res.nt((c['shape'], c['ranks'], c['pat'], 'sample', uns, idx))
        res.trace()

    nodes, leaves = explore_tree(lambda g: teneva.sample(Y, 1, seed=g, unsert=uns), on_leaf, on_node, prune)
    res.check(ref.core_bytes(Y) == Yb, 'sample.input_untouched', c, 'tensor modified', tags)
    # every positive entry must have been reached as a leaf
    missing = [i for i in np.ndindex(*shape) if A[i] > 1e-8 * total and i not in seen]
    res.check(not missing, 'sample.support', c, lambda: 'positive entries never reachable: %s' % missing[:5], tags)
    res.outcome('leaves=%d' % leaves)
    # rows drawn together do not influence each other: all pairs of paths (small tensors only)
    if c.get('pairs') and A.size <= 12:
        support = [i for i in np.ndindex(*shape) if seen.get(i, 0) > 1e-12]
        for ia, ib in itertools.product(support, repeat=2):
            res.ev()
            script = [[ia[0], ib[0]]]
            for k in range(1, d):
                script += [ia[k], ib[k]]
            g = ScriptedGenerator(script)
            out = teneva.sample(Y, 2, seed=g, unsert=uns)
            case = dict(c, rows=[list(ia), list(ib)], fn='sample')
            res.check(out.shape == (2, d) and tuple(out[0]) == ia and tuple(out[1]) == ib, 'sample.rows', case,
                      lambda: 'returned %r' % (out,), tags)
            pa = g.log[0][4][ia[0]]
            pb = g.log[0][4][ib[0]]
            for k in range(1, d):
                pa *= g.log[1 + 2 * (k - 1)][4][ia[k]]
                pb *= g.log[2 + 2 * (k - 1)][4][ib[k]]
            res.check(abs(pa - seen[ia]) <= 1e-12 and abs(pb - seen[ib]) <= 1e-12, 'sample.rows_independent', case,
                      lambda: 'row probabilities (%r, %r) differ from single-row ones (%r, %r)' % (pa, pb, seen[ia], seen[ib]), tags)
            res.trace()
    return res


def check_square(c):
    res = Res()
    seed = c.get('seed', 0)
    Y = build(c, seed)
    Yb = ref.core_bytes(Y)
    A = ref.dense(Y)
    shape = list(A.shape)
    d = len(shape)
    n2 = float((A ** 2).sum())
    tags = ['sample_square', 'pat=' + c['pat']]
    if n2 <= 0:
        res.ev()
        res.skip('zero tensor')
        return res
    seen = {}

    def prefix_prob(script, g):
        pr = 1.0
        for k, ans in enumerate(script):
            pv = g.log[k][4]
            if pv is None or not np.all(np.isfinite(pv)):
                return None
            a = ans[0] if isinstance(ans, list) else ans
            pr *= pv[a]
        return pr

    def prune(script, g):
        pr = prefix_prob(script, g)
        if pr is None or pr <= 1e-14:
            idx = tuple(a[0] if isinstance(a, list) else a for a in script)
            sub = A[idx] if idx else A
            res.check((sub ** 2).sum() <= 1e-9 * n2, 'square.zero_branch', dict(c, prefix=list(idx)),
                      lambda: 'branch %s has probability %r but squared entries sum to %.3e' % (idx, pr, (sub ** 2).sum()), tags)
            return True
        return False

    def on_node(script, g):
        res.state(digest((c['shape'], c['ranks'], c['pat'], 'square', script)))
        res.tr()

    def on_leaf(script, g, out):
        res.ev()
        idx = tuple(a[0] if isinstance(a, list) else a for a in script)
        case = dict(c, index=list(idx), fn='sample_square')
        good = isinstance(out, np.ndarray) and out.shape == (1, d) and out.dtype.kind in 'iu' and tuple(out[0]) == idx
        res.check(good, 'square.result', case, lambda: 'returned %r (dtype %s) for forced path %s' % (
            out, getattr(out, 'dtype', None), idx), tags)
        pr = prefix_prob(script, g)
        want = float(A[idx]) ** 2 / n2
        res.check(pr is not None and abs(pr - want) <= 1e-12 + 1e-9 * want, 'square.prob', case,
                  lambda: 'path probability %r, entry^2/norm^2 = %.12g' % (pr, want), tags + ['prob'])
        seen[idx] = pr
        if want > 0:
            res.nt((c['shape'], c['ranks'], c['pat'], 'square', idx))
        res.trace()

    try:
        nodes, leaves = explore_tree(lambda g: teneva.sample_square(Y, 1, unique=False, seed=g), on_leaf, on_node, prune)
    except HarnessError:
        raise
    except Exhausted:
        raise
    except Exception as ex:
        res.ev()
        res.fail('square.raised', dict(c, fn='sample_square'), 'sample_square raised %s: %s' % (type(ex).__name__, str(ex)[:200]),
                 tags + ['exception'])
        return res
    res.check(ref.core_bytes(Y) == Yb, 'square.input_untouched', c, 'tensor modified', tags)
    missing = [i for i in np.ndindex(*shape) if A[i] ** 2 > 1e-9 * n2 and i not in seen]
    res.check(not missing, 'square.support', c, lambda: 'entries never reachable: %s' % missing[:5], tags)
    res.outcome('leaves=%d' % leaves)
    # unique sampling with real generators: distinct rows; too many rows -> ValueError
    support = int(np.sum(A ** 2 > 1e-12 * n2))
    for sd in (0, 1, 2):
        for m in sorted({1, 2, min(support, 4), support}):
            res.ev()
            case = dict(c, fn='sample_square', unique=True, m=m, gen_seed=sd)
            try:
                with warnings.catch_warnings():
                    warnings.simplefilter('ignore')
                    I = teneva.sample_square(Y, m, unique=True, seed=sd, max_rep=6)
            except ValueError:
                # allowed only if the generator really failed to hit m distinct support points: not decidable -> note
                res.note('unique: ValueError with m <= support (generator did not find enough rows)')
                continue
            except Exception as ex:
                res.fail('square.unique.raised', case, '%s: %s' % (type(ex).__name__, str(ex)[:200]), tags + ['exception'])
                continue
            good = (isinstance(I, np.ndarray) and I.shape == (m, d) and I.dtype.kind in 'iu'
                    and np.all(I >= 0) and np.all(I < np.array(shape)))
            res.check(good, 'square.unique.shape', case, lambda: 'returned %r' % (I,), tags)
            if good:
                res.check(len({tuple(r) for r in I}) == m, 'square.unique.distinct', case,
                          lambda: 'rows repeat: %s' % I.tolist(), tags)
                res.check(all(A[tuple(r)] ** 2 > 0 for r in I), 'square.unique.support', case, 'row outside the support', tags)
    res.ev()
    case = dict(c, fn='sample_square', unique=True, m=support + 1)
    try:
        with warnings.catch_warnings():
            warnings.simplefilter('ignore')
            I = teneva.sample_square(Y, support + 1, unique=True, seed=0, m_fact=2, max_rep=2)
        got = 'returned %d rows' % len(I)
    except ValueError:
        got = 'ValueError'
    except Exception as ex:
        got = type(ex).__name__ + ': ' + str(ex)[:100]
    if support == A.size:
        res.check(got == 'ValueError', 'square.unique.too_many', case,
                  lambda: 'more unique rows than the tensor has elements: %s' % got, tags)
    return res


def _lhs_ok(col, n, m):
    cnt = np.bincount(col, minlength=n)
    return len(cnt) == n and all(x in (m // n, -(-m // n)) for x in cnt)


def check_lhs(c):
    res = Res()
    n = c['n']
    d = len(n)
    tags = ['lhs']
    for m in c['ms']:
        for sd in c['seeds']:
            res.ev()
            case = dict(c, m=m, gen_seed=sd)
            I = teneva.sample_lhs(n, m, seed=sd)
            good = isinstance(I, np.ndarray) and I.shape == (m, d) and I.dtype.kind in 'iu' and \
                np.all(I >= 0) and np.all(I < np.array(n))
            res.check(good, 'lhs.shape', case, lambda: 'returned %r' % (I,), tags)
            if good:
                res.check(all(_lhs_ok(I[:, k], n[k], m) for k in range(d)), 'lhs.balance', case,
                          lambda: 'index counts %s for m=%d' % ([np.bincount(I[:, k], minlength=n[k]).tolist() for k in range(d)], m), tags)
                if any(m % k for k in n):
                    res.nt((n, m, sd))
        # every answer of the scripted generator (1-D and small m only: the tree is the product over modes)
        if m <= c.get('script_m', 0) and d == 1:
            def on_leaf(script, g, out):
                res.ev()
                case = dict(c, m=m, script=script)
                good = out.shape == (m, 1) and np.all(out >= 0) and np.all(out < n[0])
                res.check(good and _lhs_ok(out[:, 0], n[0], m), 'lhs.balance.scripted', case,
                          lambda: 'scripted answers %s give %s' % (script, out[:, 0].tolist()), tags)
                res.trace()

            def on_node(script, g):
                res.state(digest(('lhs', n, m, script)))
                res.tr()
            explore_tree(lambda g: teneva.sample_lhs(n, m, seed=g), on_leaf, on_node)
    return res


def check_misc(c):
    """sample_rand, sample_rand_poi, sample_tt: structure."""
    res = Res()
    n = c['n']
    d = len(n)
    if c.get('many'):
        # many rows at once (beyond any internal block size) and extreme magnitudes: shape, dtype, bounds, support
        m = c['many']
        for scale in (1.0, 1e-150, 1e+150):
            res.ev()
            Y = [G * (scale if k == 0 else 1.0) for k, G in enumerate(space.tt(n, [1] + [2] * (d - 1) + [1], 'nneg', 0))]
            A = ref.dense(Y)
            case = dict(c, fn='sample', scale=scale)
            with warnings.catch_warnings():
                warnings.simplefilter('ignore')
                I = teneva.sample(Y, m, seed=0)
                J = teneva.sample_square(Y, m, unique=False, seed=0)
            for nm, X in (('sample', I), ('sample_square', J)):
                good = isinstance(X, np.ndarray) and X.shape == (m, d) and X.dtype.kind in 'iu' and np.all(X >= 0) and np.all(X < np.array(n))
                res.check(good, 'many.shape', dict(case, fn=nm), lambda: '%s(m=%d) returned shape %s' % (nm, m, getattr(X, 'shape', None)))
                if good:
                    res.check(np.all(A[tuple(X.T)] > 0), 'many.support', dict(case, fn=nm), '%s drew an index whose entry is zero (scale %g)' % (nm, scale))
                    cnt = np.zeros(A.shape)
                    np.add.at(cnt, tuple(X.T), 1)
                    res.check(np.all(cnt[A > 0.2 * A.max()] > 0), 'many.coverage', dict(case, fn=nm),
                              '%s(m=%d) never drew one of the dominant entries (scale %g)' % (nm, m, scale))
            res.nt(('many', tuple(n), scale))
    # the sample count may be given as a float (documented: int, float) and the shape as an array of floats
    if d <= 3 and not c.get('many'):
        res.ev()
        case = dict(c, fn='float-count')
        Yp = space.tt(n, [1] + [2] * (d - 1) + [1], 'pos', 0)
        with warnings.catch_warnings():
            warnings.simplefilter('ignore')
            okf = np.array_equal(teneva.sample(Yp, 3.0, seed=1), teneva.sample(Yp, 3, seed=1)) if d >= 2 else True
            okf = okf and (np.array_equal(teneva.sample_square(Yp, 2.0, unique=False, seed=1), teneva.sample_square(Yp, 2, unique=False, seed=1)) if d >= 2 else True)
            okf = okf and np.array_equal(teneva.sample_lhs(np.array(n, dtype=float), 5.0, seed=1), teneva.sample_lhs(n, 5, seed=1))
            okf = okf and np.array_equal(teneva.sample_rand(np.array(n, dtype=float), 4.0, seed=1), teneva.sample_rand(n, 4, seed=1))
            okf = okf and np.array_equal(teneva.sample_rand_poi([0.] * d, [1.] * d, 4.0, seed=1), teneva.sample_rand_poi([0.] * d, [1.] * d, 4, seed=1))
            for X_ in (teneva.sample_lhs(np.array(n, dtype=float), 5.0, seed=1), teneva.sample_rand(np.array(n, dtype=float), 4.0, seed=1),
                       teneva.sample_rand([float(x) for x in n], 4, seed=1), teneva.sample_tt([float(x) for x in n], 2, seed=1)[0] if d >= 2 else np.zeros(1, dtype=int)):
                okf = okf and X_.dtype.kind in 'iu'
        res.check(bool(okf), 'float_count', case, 'a float sample count / float shape gives a different result than the integer one, or a non-integer index array')
    for sd in c['seeds']:
        for m in c['ms']:
            res.ev()
            case = dict(c, m=m, gen_seed=sd, fn='sample_rand')
            I = teneva.sample_rand(n, m, seed=sd)
            good = isinstance(I, np.ndarray) and I.shape == (m, d) and I.dtype.kind in 'iu' and \
                np.all(I >= 0) and np.all(I < np.array(n))
            res.check(good, 'rand.shape', case, lambda: 'returned %r' % (I,))
            res.ev()
            a = [-1.0 - k for k in range(d)]
            b = [0.5 + 2 * k for k in range(d)]
            X = teneva.sample_rand_poi(a, b, m, seed=sd)
            good = isinstance(X, np.ndarray) and X.shape == (m, d) and np.all(X >= np.array(a)) and np.all(X <= np.array(b))
            res.check(good, 'rand_poi.box', dict(c, m=m, gen_seed=sd, fn='sample_rand_poi'), lambda: 'returned %r' % (X,))
        if d >= 2:
            for r in c['rs']:
                res.ev()
                case = dict(c, r=r, gen_seed=sd, fn='sample_tt')
                I, idx, idx_many = teneva.sample_tt(n, r, seed=(sd if r != c['rs'][0] else np.random.default_rng(sd)))
                ok = isinstance(I, np.ndarray) and I.ndim == 2 and I.shape[1] == d and I.dtype.kind in 'iu' \
                    and np.all(I >= 0) and np.all(I < np.array(n))
                res.check(ok, 'tt.shape', case, 'index array malformed')
                if not ok:
                    continue
                good = (len(idx) == d + 1 and idx[0] == 0 and idx[-1] == len(I) and len(idx_many) == d)
                res.check(good, 'tt.idx', case, lambda: 'idx=%s idx_many=%s rows=%d' % (idx, idx_many, len(I)))
                if not good:
                    continue
                for i in range(d):
                    blk = I[idx[i]:idx[i + 1]]
                    len1 = r if i > 0 else 1
                    len2 = r if i < d - 1 else 1
                    if not res.check(len(blk) == n[i] * len1 * len2 and idx_many[i] == len2, 'tt.block_size', case,
                                     lambda: 'block %d has %d rows, expected %d*%d*%d; idx_many=%d' % (
                                         i, len(blk), n[i], len1, len2, idx_many[i])):
                        continue
                    B = blk.reshape(n[i], len1, len2, d)
                    res.check(all(np.all(B[v, :, :, i] == v) for v in range(n[i])), 'tt.order_mode', case,
                              'mode index is not the slowest key of block %d' % i)
                    pre_ok = all(np.array_equal(B[v, p, q, :i], B[0, p, 0, :i]) for v in range(n[i])
                                 for p in range(len1) for q in range(len2))
                    suf_ok = all(np.array_equal(B[v, p, q, i + 1:], B[0, 0, q, i + 1:]) for v in range(n[i])
                                 for p in range(len1) for q in range(len2))
                    res.check(pre_ok and suf_ok, 'tt.order_prefix_suffix', case,
                              'block %d is not ordered as (mode index, prefix, suffix)' % i)
                    if i > 0:
                        P = B[0, :, 0, :i]
                        res.check(all(_lhs_ok(P[:, k], n[k], r) for k in range(i)), 'tt.prefix_lhs', case,
                                  'prefixes of block %d are not a Latin-hypercube set' % i)
                    if i < d - 1:
                        S = B[0, 0, :, i + 1:]
                        res.check(all(_lhs_ok(S[:, k], n[i + 1 + k], r) for k in range(d - 1 - i)), 'tt.suffix_lhs', case,
                                  'suffixes of block %d are not a Latin-hypercube set' % i)
                res.nt((n, r, sd))
    return res


CHECKERS = {'sample': check_sample, 'square': check_square, 'lhs': check_lhs, 'misc': check_misc}


def _tensors(tier, seed, signed):
    out = []
    if tier == 'quick':
        plan = [(2, [1, 2, 3], [1, 2, 3]), (3, [1, 2, 3], [1, 2]), (4, [2], [2])]
    else:
        plan = [(2, [1, 2, 3, 4], [1, 2, 3]), (3, [1, 2, 3], [1, 2, 3]), (4, [1, 2, 3], [1, 2])]
    pats = ['gen', 'intA', 'sign', 'nneg'] if signed else ['pos', 'nneg', 'genpos', 'sq', 'zslice']
    for d, ns, rs in plan:
        for sh in space.shapes([d], ns):
            for rk in space.rank_profiles(d, rs):
                for pat in pats:
                    if signed:
                        out.append(dict(shape=sh, ranks=rk, pat=pat, seed=seed))
                    else:
                        out.append(dict(shape=sh, ranks=rk, pat=pat, seed=seed, pairs=(d == 2), unsert=0.0))
                        out.append(dict(shape=sh, ranks=rk, pat=pat, seed=seed, pairs=False, unsert=1e-10))
    for sh, rk in (([8, 9], [1, 3, 1]), ([2, 2, 2, 2, 2], [1, 2, 2, 2, 2, 1]), ([20, 3], [1, 2, 1]), ([3, 16], [1, 3, 1]), ([4, 4, 4], [1, 4, 4, 1]),
                   ([3, 2, 3], [1, 4, 2, 1]), ([2, 2, 2, 2], [1, 2, 4, 2, 1]), ([3, 2, 2, 3], [1, 2, 4, 2, 1]), ([2, 3, 2], [1, 2, 6, 1])):    # ranks >= mode size x next rank
        for pat in (['gen', 'nneg'] if signed else ['genpos', 'sq', 'zslice']):
            if signed:
                out.append(dict(shape=sh, ranks=rk, pat=pat, seed=seed))
            else:
                out.append(dict(shape=sh, ranks=rk, pat=pat, seed=seed, pairs=False, unsert=0.0))
    return out


def strata(tier, seed):
    a = _tensors(tier, seed, False)
    yield Stratum('sample: all paths', a, 'sample', size=len(a), chunk=8, bounds={'m': 1, 'pairs of paths': 'tensors with <= 12 entries'})
    b = _tensors(tier, seed, True)
    yield Stratum('sample_square: all paths', b, 'square', size=len(b), chunk=8, bounds={'m': 1})
    top = 4 if tier == 'quick' else 5
    ls = [dict(n=list(n), ms=list(range(1, 13)), seeds=[0, 1, 2, 3, 4], script_m=4 if len(n) == 1 else 0)
          for d in (1, 2, 3) for n in itertools.product(range(1, top + 1), repeat=d)]
    yield Stratum('lhs', ls, 'lhs', seq=(tier == 'quick'), size=len(ls), chunk=4, bounds={'n': '{1..%d}^d, d<=3' % top, 'm': '1..12'})
    ktop = 64 if tier == 'quick' else 200
    lb = [dict(n=[k] if k % 2 else [k, 5], ms=sorted({k - 1, k, k + 1, 2 * k, 2 * k + 1, 3 * k}), seeds=[0, 1]) for k in range(5, ktop + 1)]
    yield Stratum('lhs: every mode size up to %d, sample counts around its multiples' % ktop, lb, 'lhs', size=len(lb), chunk=4, bounds={'n': [5, ktop]})
    mtop = 420 if tier == 'quick' else 1200
    ls2 = [dict(n=[k], ms=list(range(lo, min(lo + 60, mtop + 1))), seeds=[0]) for k in range(1, 9) for lo in range(13, mtop + 1, 60)]
    yield Stratum('lhs: mode sizes 1..8, every sample count up to %d' % mtop, ls2, 'lhs', size=len(ls2), chunk=4, bounds={'n': [1, 8], 'm': [13, mtop]})
    ms = [dict(n=[4] * 34, ms=[1], rs=[2, 3], seeds=[0]), dict(n=[10] * 21, ms=[1], rs=[2], seeds=[1]), dict(n=[2] * 70, ms=[2], rs=[2], seeds=[0]),
          dict(n=[40, 50, 60], ms=[3], rs=[5], seeds=[0]), dict(n=[300, 7], ms=[3], rs=[2], seeds=[0]),
          dict(n=[3, 2, 3], ms=[1], rs=[2], seeds=[0], many=20001), dict(n=[2, 3], ms=[1], rs=[2], seeds=[0], many=40001)] + \
         [dict(n=list(n), ms=[1, 2, 7], rs=[1, 2, 3, 4], seeds=[0, 1, 2])
          for d in (1, 2, 3, 4) for n in itertools.product((2, 3, 4) if d > 2 else (1, 2, 3, 4), repeat=d)]
    yield Stratum('rand / rand_poi / tt layout / many rows', ms, 'misc', seq=(tier == 'quick'), size=len(ms), chunk=8, bounds={})
