"""Finite alphabets: shapes, rank profiles, value patterns; case -> arrays."""
import itertools

import numpy as np


def shapes(ds, ns):
    """All shapes with d in ds and every mode size in ns."""
    out = []
    for d in ds:
        out.extend(list(s) for s in itertools.product(ns, repeat=d))
    return out


def rank_profiles(d, rs):
    """All profiles [1, r_1..r_{d-1}, 1] with inner ranks from rs."""
    return [[1] + list(p) + [1] for p in itertools.product(rs, repeat=d - 1)]


_COEF = {
    'intA': (1, 2, 3, 1, 5, 2),
    'intB': (2, 1, 1, 3, 5, 2),
    'intC': (3, 1, 2, 0, 7, 3),
}


def core(pat, r1, n, r2, k, seed=0, tag=0):
    """One TT-core of shape (r1, n, r2) for position k."""
    i, j, l = np.meshgrid(np.arange(r1), np.arange(n), np.arange(r2), indexing='ij')
    if pat in _COEF:
        a, b, c, e, m, off = _COEF[pat]
        G = ((a * i + b * j + c * l + e * k + tag) % m) - off
        return G.astype(float)
    if pat == 'sign':
        return np.where((i + j + 2 * l + k) % 2 == 0, 1., -1.)
    if pat == 'ones':
        return np.ones((r1, n, r2))
    if pat == 'zero':
        return np.zeros((r1, n, r2))
    if pat == 'pos':
        return (((2 * i + j + 3 * l + k) % 4) + 1).astype(float)
    if pat == 'nneg':      # non-negative with zeros
        return ((i + 2 * j + l + k) % 3).astype(float)
    if pat == 'delta':
        return ((i == 0) & (j == 0) & (l == 0)).astype(float)
    if pat == 'dup':       # rank-deficient: every slice along r2 repeated
        a, b, c, e, m, off = _COEF['intA']
        G = ((a * i + b * j + e * k) % m) - off + 0 * l
        return G.astype(float) + (i == 0) * (j == 0) * 1.0
    if pat == 'gen' or pat == 'genpos':
        ss = np.random.SeedSequence([int(seed) & 0xffffffff, r1, n, r2, k, int(tag) & 0xffff, 77])
        g = np.random.Generator(np.random.PCG64(ss))
        G = g.uniform(-1., 1., size=(r1, n, r2))
        if pat == 'genpos':
            G = np.abs(G) + 0.05
        return G
    raise ValueError(pat)


def tt(shape, ranks, pat, seed=0, tag=0, scales=None):
    """TT-tensor (list of cores) from a structural description."""
    Y = []
    for k, n in enumerate(shape):
        G = core(pat, ranks[k], n, ranks[k + 1], k, seed, tag)
        if scales is not None:
            G = G * (2.0 ** scales[k])
        Y.append(G)
    return Y


def tt_case(c, seed=0):
    return tt(c['shape'], c['ranks'], c['pat'], seed, c.get('tag', 0), c.get('scales'))


def is_int_pat(pat):
    return pat in ('intA', 'intB', 'intC', 'sign', 'ones', 'zero', 'pos', 'nneg',
                   'delta', 'dup')


def all_indices(shape):
    return list(itertools.product(*[range(n) for n in shape]))


def grid_array(shape):
    return np.array(all_indices(shape), dtype=int).reshape(-1, len(shape))
