"""Explorer core: strata, worker pool, result accounting, evidence, replay.

A property module (mc/props/cNN.py) exposes

    ID, LEVEL, RULE, ASSUMPTIONS
    CHECKERS = {name: function(case) -> Res}
    strata(tier, seed) -> iterable of Stratum

Every case is a JSON-serialisable dict; a checker rebuilds all arrays from it,
runs the real library and returns a Res.  The driver enumerates every case of
every stratum (smallest first), merges the results, re-executes violations in
the parent process (harness-determinism guard) and writes the evidence file.
"""
import hashlib
import json
import multiprocessing as mp
import os
import sys
import time
import traceback

ROOT = os.path.dirname(os.path.dirname(os.path.abspath(__file__)))
OUT = os.environ.get('VERIF_OUT') or ROOT      # evidence/ and replays/ live here (mutant self-tests redirect)


def digest(obj):
    if isinstance(obj, bytes):
        b = obj
    elif isinstance(obj, str):
        b = obj.encode()
    else:
        b = json.dumps(obj, sort_keys=True, default=_js).encode()
    return hashlib.blake2b(b, digest_size=8).hexdigest()


def _js(o):
    import numpy as np
    if isinstance(o, np.ndarray):
        return o.tolist()
    if isinstance(o, (np.integer,)):
        return int(o)
    if isinstance(o, (np.floating,)):
        return float(o)
    if isinstance(o, (np.bool_,)):
        return bool(o)
    if isinstance(o, (set, frozenset, tuple)):
        return list(o)
    if isinstance(o, bytes):
        return o.hex()
    return repr(o)


class Res:
    """Result of one checker execution (merged by the driver)."""

    __slots__ = ('evals', 'clauses', 'nontriv', 'states', 'trans', 'skipped',
                 'outcomes', 'viol', 'notes', 'traces')

    def __init__(self):
        self.evals = 0
        self.clauses = {}
        self.nontriv = set()
        self.states = set()
        self.trans = 0
        self.skipped = {}
        self.outcomes = set()
        self.viol = []
        self.notes = {}
        self.traces = 0

    # -- accounting ---------------------------------------------------------
    def ev(self, n=1):
        self.evals += n

    def ok(self, clause, n=1):
        self.clauses[clause] = self.clauses.get(clause, 0) + n

    def nt(self, key):
        """Mark a distinct non-trivial case (key: anything JSON-able)."""
        self.nontriv.add(key if isinstance(key, str) and len(key) == 16
                         else digest(key))

    def state(self, key):
        self.states.add(key if isinstance(key, str) and len(key) == 16
                        else digest(key))

    def tr(self, n=1):
        self.trans += n

    def trace(self, n=1):
        self.traces += n

    def skip(self, why, n=1):
        self.skipped[why] = self.skipped.get(why, 0) + n

    def outcome(self, s):
        if len(self.outcomes) < 4000:
            self.outcomes.add(str(s))

    def note(self, k, n=1):
        self.notes[k] = self.notes.get(k, 0) + n

    def fail(self, clause, case, detail, tags=()):
        self.viol.append({'clause': clause, 'case': case,
                          'detail': detail, 'tags': sorted(set(tags))})

    def check(self, cond, clause, case, detail, tags=()):
        """Count clause; record violation when cond is false."""
        if cond:
            self.ok(clause)
        else:
            d = detail() if callable(detail) else detail
            self.fail(clause, case, d, tags)
        return bool(cond)

    # -- transport ----------------------------------------------------------
    def pack(self):
        return (self.evals, self.clauses, self.nontriv, self.states, self.trans,
                self.skipped, self.outcomes, self.viol, self.notes, self.traces)

    def merge_packed(self, p):
        (ev, cl, nt, st, tr, sk, oc, vi, no, tc) = p
        self.evals += ev
        for k, v in cl.items():
            self.clauses[k] = self.clauses.get(k, 0) + v
        self.nontriv |= nt
        self.states |= st
        self.trans += tr
        for k, v in sk.items():
            self.skipped[k] = self.skipped.get(k, 0) + v
        if len(self.outcomes) < 4000:
            self.outcomes |= oc
        self.viol.extend(vi)
        for k, v in no.items():
            self.notes[k] = self.notes.get(k, 0) + v
        self.traces += tc


class Stratum:
    def __init__(self, name, cases, checker, size=None, chunk=16, bounds=None, fresh_worker=False, seq=False):
        self.name = name
        self.cases = cases          # iterable of JSON-able dicts
        self.checker = checker      # name in CHECKERS
        self.size = size            # independently computed size (or None)
        self.chunk = chunk
        self.bounds = bounds or {}
        self.fresh_worker = fresh_worker   # every case in a newly forked worker (history-sensitive checks)
        # sequential pass: in addition to the parallel pass, ONE worker executes all cases of the stratum forwards and then backwards in
        # the same process, so that every case is also judged (by its usual oracle) in the state left behind by its lattice neighbours
        # on either side - what a memo keyed by part of the arguments, or any other state kept between calls, needs in order to show
        self.seq = seq


# --------------------------------------------------------------------------
# worker side

_MOD = None


def _init_worker(modname):
    global _MOD
    import importlib
    _MOD = importlib.import_module(modname)


class CaseTimeout(Exception):
    pass


def _alarm(signum, frame):
    raise CaseTimeout('case did not finish within its horizon (a library call does not terminate?)')


# cases that hit their horizon, over all workers of a run (inherited by fork): after ABORT_AFTER_TIMEOUTS of them the remaining
# cases are not executed (a non-terminating library call would otherwise cost horizon x cases); the run is then reported as
# not exhaustive, with the timeouts as violations
_TIMEOUTS = mp.get_context('fork').Value('i', 0)
ABORT_AFTER_TIMEOUTS = 6


def _run_chunk(arg):
    import signal
    checker, cases = arg
    out = Res()
    fn = _MOD.CHECKERS[checker]
    limit = int(getattr(_MOD, 'CASE_TIMEOUT', 300))
    signal.signal(signal.SIGALRM, _alarm)
    for c in cases:
        if _TIMEOUTS.value >= ABORT_AFTER_TIMEOUTS:
            out.skip('not executed: run aborted after repeated case timeouts')
            continue
        try:
            signal.alarm(limit)
            try:
                r = fn(c)
            finally:
                signal.alarm(0)
        except CaseTimeout as ex:
            with _TIMEOUTS.get_lock():
                _TIMEOUTS.value += 1
            r = Res()
            r.ev()
            r.fail('timeout', c, str(ex), tags=['timeout'])
        except Exception:
            r = Res()
            r.ev()
            r.fail('raised.unexpected', c, traceback.format_exc()[-1500:],
                   tags=['exception'])
        if r is not None:
            out.merge_packed(r.pack())
    return out.pack()


def _run_seq(arg):
    """Sequential pass of one stratum: only the violations and the number of evaluations come back (the counts of the parallel pass
    are the coverage figures; this pass re-judges the same cases in another process state)."""
    checker, cases = arg
    evals, viol = 0, []
    for pos, c in enumerate(cases):
        r = Res()
        r.merge_packed(_run_chunk((checker, [c])))
        evals += r.evals
        for v in r.viol:
            v['tags'] = sorted(set(v.get('tags', [])) | {'sequential-pass'})
            v['seq_pos'] = pos
            viol.append(v)
    return evals, viol


def run_case(mod, checker, case):
    import signal
    fn = mod.CHECKERS[checker]
    signal.signal(signal.SIGALRM, _alarm)
    try:
        signal.alarm(int(getattr(mod, 'CASE_TIMEOUT', 300)))
        try:
            r = fn(case)
        finally:
            signal.alarm(0)
    except CaseTimeout as ex:
        r = Res()
        r.ev()
        r.fail('timeout', case, str(ex), tags=['timeout'])
    except Exception:
        r = Res()
        r.ev()
        r.fail('raised.unexpected', case, traceback.format_exc()[-1500:],
               tags=['exception'])
    return r


# --------------------------------------------------------------------------
# known findings

def load_known():
    p = os.path.join(ROOT, 'known_findings.json')
    if not os.path.exists(p):
        return []
    with open(p) as f:
        return json.load(f).get('findings', [])


def match_known(known, pid, v):
    for k in known:
        if k.get('status') != 'known' or k.get('property') != pid:
            continue
        cl = k.get('clause')
        if cl and cl != v['clause']:
            continue
        if set(k.get('tags', [])) <= set(v['tags']):
            return k
    return None


# --------------------------------------------------------------------------
# driver

def _chunks(it, n):
    buf = []
    for x in it:
        buf.append(x)
        if len(buf) >= n:
            yield buf
            buf = []
    if buf:
        yield buf


def explore(mod, tier, seed, nproc=None, cap_s=None, log=print):
    t0 = time.time()
    nproc = nproc or int(os.environ.get('VERIF_NPROC', '0')) or min(16, os.cpu_count() or 1)
    total = Res()
    strata_done, strata_skipped, counts = [], [], {}
    exhaustive = True
    samples = []
    bounds = {}
    determinism_checked = []
    seq_evals = {}
    ctx = mp.get_context('fork')
    pool = ctx.Pool(nproc, initializer=_init_worker, initargs=(mod.__name__,))
    try:
        for st in mod.strata(tier, seed):
            if cap_s is not None and time.time() - t0 > cap_s:
                strata_skipped.append(st.name)
                exhaustive = False
                continue
            ts = time.time()
            n = 0
            before = total.evals

            first_case = None

            def gen():
                nonlocal n, first_case
                for ch in _chunks(st.cases, st.chunk):
                    if first_case is None and ch:
                        first_case = ch[0]
                    n += len(ch)
                    for c in ch:
                        c['_checker'] = st.checker
                    if len(samples) < 6 and (n <= len(ch) or len(samples) < 3):
                        samples.append({'stratum': st.name, 'checker': st.checker,
                                        'case': ch[len(ch) // 2]})
                    yield (st.checker, ch)
            seq_job = None
            if st.seq and not st.fresh_worker:
                st.cases = list(st.cases)
                sc = [dict(c, _checker=st.checker) for c in st.cases]
                seq_list = sc + [dict(c) for c in reversed(sc)]
                seq_pool = ctx.Pool(1, initializer=_init_worker, initargs=(mod.__name__,), maxtasksperchild=1)      # a fresh process
                seq_job = seq_pool.apply_async(_run_seq, ((st.checker, seq_list),))
            if st.fresh_worker:
                fpool = ctx.Pool(nproc, initializer=_init_worker, initargs=(mod.__name__,), maxtasksperchild=1)
                try:
                    for packed in fpool.imap_unordered(_run_chunk, gen()):
                        total.merge_packed(packed)
                finally:
                    fpool.terminate()
                    fpool.join()
            else:
                for packed in pool.imap_unordered(_run_chunk, gen()):
                    total.merge_packed(packed)
            if seq_job is not None:
                sev, sviol = seq_job.get()
                seq_pool.terminate()
                seq_pool.join()
                seq_evals[st.name] = sev
                if sviol:
                    # a violation that needs the history of the pass cannot be confirmed by re-executing its case alone: the whole pass is
                    # executed once more in another fresh process, and only what fails identically both times is kept
                    p2 = ctx.Pool(1, initializer=_init_worker, initargs=(mod.__name__,), maxtasksperchild=1)
                    try:
                        _, sviol2 = p2.apply(_run_seq, ((st.checker, seq_list),))
                    finally:
                        p2.terminate()
                        p2.join()
                    again = {(v['clause'], v['seq_pos']) for v in sviol2}
                    for v in sviol:
                        if (v['clause'], v['seq_pos']) in again:
                            v['history'] = seq_list[:v['seq_pos'] + 1]
                            total.viol.append(v)
                        else:
                            log('HARNESS-NONDETERMINISM: sequential-pass violation of %s at position %d did not recur' % (v['clause'], v['seq_pos']))
                            total.note('sequential_pass_unstable')
            if first_case is not None and not st.fresh_worker and _TIMEOUTS.value < ABORT_AFTER_TIMEOUTS:
                # determinism self-check: the first case of the stratum twice in the driver; observations must be identical
                a = run_case(mod, st.checker, json.loads(json.dumps(first_case, default=_js)))
                b = run_case(mod, st.checker, json.loads(json.dumps(first_case, default=_js)))
                if (a.evals, a.clauses, a.nontriv, a.states, len(a.viol)) != (b.evals, b.clauses, b.nontriv, b.states, len(b.viol)):
                    # repeated in ONE process the case differs.  From the same initial state (two fresh processes) it must not: if it does,
                    # the harness is nondeterministic; if it does not, the library keeps state between calls, which the clauses judge
                    fc = json.loads(json.dumps(first_case, default=_js))
                    outs = []
                    for _ in range(2):
                        p1 = ctx.Pool(1, initializer=_init_worker, initargs=(mod.__name__,), maxtasksperchild=1)
                        try:
                            rr = Res()
                            rr.merge_packed(p1.apply(_run_chunk, ((st.checker, [fc]),)))
                            outs.append((rr.evals, rr.clauses, sorted(rr.nontriv), sorted(rr.states), len(rr.viol)))
                        finally:
                            p1.terminate()
                            p1.join()
                    if outs[0] != outs[1]:
                        if getattr(mod, 'NONDETERMINISM_IS_VIOLATION', False):
                            # for the property "results depend only on arguments and seed" this IS the violation: the checkers of that module
                            # draw nothing themselves, so two fresh processes that disagree on one case have met a library call with a hidden input
                            total.viol.append({'clause': 'repeat.differs', 'case': fc, 'tags': ['same'], 'history': [fc],
                                               'detail': 'one case of stratum %s gives different observations in two fresh processes' % st.name})
                            continue
                        raise RuntimeError('harness nondeterminism: two executions of the same case differ in stratum %s' % st.name)
                    log('  note: a case of stratum %s gives different observations when repeated in one process but not from a fresh process: '
                        'the library keeps state between calls' % st.name)
                    total.note('library_state_between_calls:' + st.name)
                determinism_checked.append(st.name)
            if st.size is not None and st.size != n:
                raise RuntimeError(
                    'coverage closure failed in stratum %s: enumerated %d, '
                    'independent count %d' % (st.name, n, st.size))
            counts[st.name] = {'cases': n, 'evaluations': total.evals - before,
                               'wall_s': round(time.time() - ts, 2)}
            if st.bounds:
                bounds[st.name] = st.bounds
            strata_done.append(st.name)
            log('  stratum %-28s cases=%-7d evals=%-8d %.1fs' % (
                st.name, n, total.evals - before, time.time() - ts))
    finally:
        pool.terminate()
        pool.join()
    if _TIMEOUTS.value >= ABORT_AFTER_TIMEOUTS:
        exhaustive = False
        log('  run aborted after %d case timeouts: remaining cases were not executed' % _TIMEOUTS.value)
    return total, dict(strata_done=strata_done, strata_skipped=strata_skipped,
                       counts=counts, exhaustive=exhaustive, samples=samples,
                       bounds=bounds, wall=time.time() - t0, nproc=nproc,
                       determinism_checked=determinism_checked, sequential_pass_evals=seq_evals)


def report(mod, tier, seed, total, meta, log=print):
    """Re-execute violations, apply known findings, write evidence; -> exit code."""
    pid = mod.ID
    known = load_known()
    rdir = os.path.join(OUT, 'replays', pid)
    new, knownhits = [], {}
    seen_fp = set()
    unstable = 0
    for v in total.viol:
        fp = digest({'c': v['clause'], 'case': v['case']})
        if fp in seen_fp:
            continue
        seen_fp.add(fp)
        k = match_known(known, pid, v)
        if k is not None:
            knownhits.setdefault(k['id'], [k, 0])[1] += 1
            continue
        new.append((fp, v))
    # de-duplicate by clause+tags for reporting: keep the first (smallest) few
    new.sort(key=lambda t: (t[1]['clause'], len(json.dumps(t[1]['case'], default=_js))))
    per_clause = {}
    reported = []
    for fp, v in new:
        key = (v['clause'], tuple(v['tags']))
        per_clause[key] = per_clause.get(key, 0) + 1
        if per_clause[key] <= 3:
            reported.append((fp, v))
    for (cl, tg), cnt in sorted(per_clause.items()):
        log('violation-summary: clause=%s tags=%s count=%d' % (cl, ','.join(tg), cnt))
    confirmed = []
    for fp, v in reported:
        chk = v['case'].get('_checker') if isinstance(v['case'], dict) else None
        if chk is None or v['clause'] == 'raised.unexpected' and chk is None or 'history' in v:
            confirmed.append((fp, v))          # (a sequential-pass violation was confirmed by executing the pass twice)
            continue
        if v['clause'] == 'timeout' and any(x[1]['clause'] == 'timeout' for x in confirmed):
            confirmed.append((fp, v))          # one reproduced non-termination is enough; each re-execution costs a full horizon
            continue
        r = run_case(mod, chk, v['case'])
        if any(x['clause'] in (v['clause'], 'raised.unexpected') for x in r.viol):
            confirmed.append((fp, v))
        else:
            unstable += 1
            log('HARNESS-NONDETERMINISM: violation of %s did not reproduce: %s'
                % (v['clause'], json.dumps(v['case'], default=_js)[:300]))
    if unstable and not confirmed:
        # nothing reproduced in the driver: harness nondeterminism, never a verdict
        write_evidence(mod, tier, seed, total, meta, len(new), extra={'harness_nondeterminism': unstable})
        return 3
    for kid, (k, n) in sorted(knownhits.items()):
        print('KNOWN-FINDING: property=%s %s (%d cases)' % (pid, k['text'], n))
    if os.path.isdir(rdir):          # replays of earlier runs are stale
        for fn_ in os.listdir(rdir):
            if fn_.endswith('.json'):
                os.remove(os.path.join(rdir, fn_))
    if confirmed:
        os.makedirs(rdir, exist_ok=True)
    for fp, v in confirmed:
        path = os.path.join(rdir, fp + '.json')
        with open(path, 'w') as f:
            json.dump({'property': pid, 'clause': v['clause'], 'case': v['case'],
                       'detail': v['detail'], 'tags': v['tags'],
                       **({'history': v['history'], 'history_note': 'execute these cases in this order in one fresh process; the last one fails'}
                          if 'history' in v else {}),
                       'similar_violations': per_clause[(v['clause'], tuple(v['tags']))],
                       'seed': seed, 'tier': tier}, f, indent=1, default=_js)
        print('VIOLATION property=%s replay=%s' % (pid, path))
        print('  clause=%s detail=%s' % (v['clause'], str(v['detail'])[:400]))
    write_evidence(mod, tier, seed, total, meta, len(new),
                   extra={'known_finding_hits': {k: n for k, (_, n) in knownhits.items()}})
    sys.stdout.flush()
    return 1 if confirmed else 0


def write_evidence(mod, tier, seed, total, meta, nviol, extra=None):
    pid = mod.ID
    cov = {
        'evaluations': total.evals,
        'distinct_nontrivial': len(total.nontriv),
        'rule': mod.RULE,
        'samples': meta['samples'][:6],
        'exhaustive': bool(meta['exhaustive']),
        'strata_completed': meta['strata_done'],
        'strata_skipped_by_time_cap': meta['strata_skipped'],
        'per_stratum': meta['counts'],
        'bounds': meta['bounds'],
        'clause_checks': dict(sorted(total.clauses.items())),
        'skipped_out_of_quantifier': dict(sorted(total.skipped.items())),
        'distinct_outcomes': len(total.outcomes),
        'outcomes_sample': sorted(total.outcomes)[:40],
        'notes': dict(sorted(total.notes.items())),
        'workers': meta['nproc'],
        'determinism_selfcheck_strata': meta.get('determinism_checked', []),
        'sequential_pass_evaluations': meta.get('sequential_pass_evals', {}),
        'teneva_src': os.environ.get('TENEVA_SRC', '/repo'),
    }
    if mod.LEVEL == 'model_checking':
        cov['states'] = len(total.states)
        cov['transitions'] = total.trans
        cov['traces_validated_against_impl'] = total.traces or total.evals
    if extra:
        cov.update(extra)
    ev = {
        'property_id': pid, 'tier': tier, 'seed': int(seed), 'level': mod.LEVEL,
        'coverage': cov, 'assumptions': list(mod.ASSUMPTIONS),
        'wall_s': round(meta['wall'], 2), 'violations': int(nviol),
    }
    os.makedirs(os.path.join(OUT, 'evidence'), exist_ok=True)
    tmp = os.path.join(OUT, 'evidence', pid + '.json.tmp')
    with open(tmp, 'w') as f:
        json.dump(ev, f, indent=1, default=_js, sort_keys=True)
    os.replace(tmp, os.path.join(OUT, 'evidence', pid + '.json'))
