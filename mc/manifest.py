"""Generate /verif/MANIFEST.json from the property modules (python -m mc.manifest)."""
import glob
import importlib
import json
import os
import sys

ROOT = os.path.dirname(os.path.dirname(os.path.abspath(__file__)))


def main():
    os.chdir(ROOT)
    sys.path.insert(0, ROOT)
    sys.path.insert(0, os.environ.get('TENEVA_SRC', '/repo'))
    import warnings
    warnings.filterwarnings('ignore')
    props = [json.loads(l) for l in open('properties.jsonl')]
    checks, claimed = [], set()
    for f in sorted(glob.glob('mc/props/c[0-9][0-9].py')):
        m = importlib.import_module('mc.props.' + os.path.basename(f)[:-3])
        if not getattr(m, 'REGISTERED', False):
            continue
        pid = m.ID
        claimed.add(pid)
        checks.append({
            'property_id': pid,
            'quick_cmd': 'cd /verif && /venv/bin/python -m mc.run %s --tier quick' % pid,
            'thorough_cmd': 'cd /verif && /venv/bin/python -m mc.run %s --tier thorough' % pid,
            'evidence_file': '/verif/evidence/%s.json' % pid,
            'replay_cmd_template': 'cd /verif && /venv/bin/python -m mc.run %s --replay {path}' % pid,
            'engine': 'mc',
            'level_claimed': {'category': m.LEVEL, 'text': m.LEVEL_TEXT,
                              'design_ref': 'DESIGN.md section 3, ' + pid},
            'level_note': m.LEVEL_NOTE,
            'technique': m.TECHNIQUE,
        })
    na = []
    extra = json.load(open('not_applicable.json')) if os.path.exists('not_applicable.json') else {}
    for p in props:
        if p['id'] not in claimed:
            na.append({'property_id': p['id'],
                       'reason': extra.get(p['id'], 'no check registered yet in this round (design in DESIGN.md '
                                           'section 3); not claimed until its check has been seen to fail on a '
                                           'defect and pass on the repaired tree')})
    man = {
        'version': 1,
        'setup_cmd': 'cd /verif && /venv/bin/python -m mc.run --selfcheck',
        'hooks': {
            'guard': 'TENEVA_VERIF',
            'enable': 'no source hooks: every observation is made at the API boundary; checks import '
                      'teneva from /repo\'s working tree (TENEVA_SRC overrides for scratch copies)',
            'baseline_off_cmd': 'cd /repo && /venv/bin/python -m pytest -ra -q -p no:cacheprovider '
                                '--timeout=900 --continue-on-collection-errors',
            'source_commits': [],
            'add_only': True,
        },
        'engines': [{
            'name': 'mc', 'path': '/verif/mc',
            'serves_properties': sorted(claimed),
            'kind_free_text': 'hand-written explicit-state / bounded exhaustive explorer for Python: lattice '
                              'enumeration, BFS over operation sequences, deviation-bounded environment/fault '
                              'exploration, choice-tree exploration through a scripted random generator; all '
                              'executions run the real teneva code',
        }],
        'checks': checks,
        'notes': 'exit 0 = held (KNOWN-FINDING lines possible), 1 = VIOLATION lines, 3 = harness error. '
                 'VERIF_SEED changes only the generic value pattern, never the enumerated structure.',
        'not_applicable': na,
    }
    with open('MANIFEST.json', 'w') as f:
        json.dump(man, f, indent=1)
    print('MANIFEST: %d checks, %d not claimed' % (len(checks), len(na)))


if __name__ == '__main__':
    main()
