"""Evaluate every seeded change under /verif/seeded with its owning check (quick tier) and write seeded/RESULTS.md.

  /venv/bin/python selftest/seed_all.py [--only C05-1 ...] [--tier quick]
"""
import glob
import json
import os
import subprocess
import sys
from concurrent.futures import ThreadPoolExecutor

HERE = os.path.dirname(os.path.abspath(__file__))
ROOT = os.path.dirname(HERE)

EXTRA = {'C13-15': ['C02'], 'C02-16': ['C04'], 'C11-12': ['C16', 'C04'], 'C11-13': ['C02'], 'C11-14': ['C12'], 'C01-11': ['C09'], 'C16-10': ['C02'], 'C16-11': ['C02'], 'C14-10': ['C10'], 'C13-1': ['C02'], 'C03-5': ['C01'], 'C15-5': ['C09'], 'C20-5': ['C14'], 'C11-6': ['C06'], 'C05-8': ['C06'], 'C02-6': ['C04']}      # seeds that a second check should see as well


def one(d):
    name = os.path.basename(d)
    pid = name.split('-')[0]
    pids = [pid] + EXTRA.get(name, [])
    p = subprocess.run(['/venv/bin/python', os.path.join(HERE, 'seed_eval.py'), d] + pids, cwd=ROOT, capture_output=True, text=True)
    try:
        e = json.loads(p.stdout[p.stdout.index('{'):])
    except Exception:
        e = {'error': (p.stdout + p.stderr)[-300:], 'checks': {}}
    return name, e


def main():
    only = [a for a in sys.argv[1:] if not a.startswith('--')]
    dirs = sorted(d for d in glob.glob(os.path.join(ROOT, 'seeded', 'C*-*')) if os.path.isdir(d) and (not only or os.path.basename(d) in only))
    with ThreadPoolExecutor(max_workers=2) as ex:
        results = list(ex.map(one, dirs))
    lines = ['| seed | property | what it needs to manifest (author\'s words, abridged) | demo clean / patched | verdict of the owning check (quick) | clauses |',
             '|---|---|---|---|---|---|']
    # the evaluated seeds get their meta.json updated; the table is then written from the meta.json files of ALL seeds
    for name, e in results:
        mp = os.path.join(ROOT, 'seeded', name, 'meta.json')
        meta = json.load(open(mp)) if os.path.exists(mp) else {}
        meta['final_evaluation'] = e.get('checks')
        meta['final_demo'] = [e.get('demo_clean_rc'), e.get('demo_patched_rc')]
        json.dump(meta, open(mp, 'w'), indent=1)
    missed = 0
    alld = sorted((d for d in glob.glob(os.path.join(ROOT, 'seeded', 'C*-*')) if os.path.isdir(d)),
                  key=lambda p: (os.path.basename(p).split('-')[0], int(os.path.basename(p).split('-')[1])))
    for d in alld:
        name = os.path.basename(d)
        mp = os.path.join(d, 'meta.json')
        meta = json.load(open(mp)) if os.path.exists(mp) else {}
        ch = meta.get('final_evaluation') or {}
        dm = meta.get('final_demo') or [meta.get('confirmed', {}).get('demo_exit_clean_tree'), meta.get('confirmed', {}).get('demo_exit_with_patch')]
        need = ' '.join(open(os.path.join(d, 'meta.txt')).read().split())[:260] if os.path.exists(os.path.join(d, 'meta.txt')) else ''
        ver = '; '.join('%s: %s' % (k, v['verdict']) for k, v in ch.items())
        cl = '; '.join(', '.join(v['clauses'][:4]) for v in ch.values())
        if 'caught' not in ver:
            missed += 1
        lines.append('| %s | %s | %s | %s / %s | %s | %s |' % (name, name.split('-')[0], need.replace('|', '/'), dm[0], dm[1], ver, cl))
    results = [(os.path.basename(d), None) for d in alld]
    open(os.path.join(ROOT, 'seeded', 'RESULTS.md'), 'w').write(
        '# Independently seeded changes and the checks that catch them\n\n' + '\n'.join(lines) + '\n\n%d seeds, %d not caught\n' % (len(results), missed))
    print('%d seeds, %d not caught' % (len(results), missed))


if __name__ == '__main__':
    main()
