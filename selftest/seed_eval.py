"""Evaluate one seeded change:  /venv/bin/python selftest/seed_eval.py <dir-with-patch.diff+demo.py> <PID> [more PIDs] [--tests] [--tier quick]

 1. copies /repo's working tree to a scratch directory outside /repo and /verif,
 2. demo.py must exit 0 on the clean copy,
 3. applies patch.diff, demo.py must now exit non-zero,
 4. (--tests) the repository's own suite must keep its 57 passes,
 5. runs the named checks with TENEVA_SRC pointing at the patched copy and reports caught / missed,
 6. removes the scratch copy.
"""
import json
import os
import shutil
import subprocess
import sys
import tempfile

HERE = os.path.dirname(os.path.abspath(__file__))
ROOT = os.path.dirname(HERE)


def sh(cmd, cwd=None, env=None, timeout=3600):
    p = subprocess.run(cmd, cwd=cwd, env=env, capture_output=True, text=True, timeout=timeout)
    return p.returncode, p.stdout + p.stderr


def main():
    args = [a for a in sys.argv[1:] if not a.startswith('--')]
    sdir, pids = os.path.abspath(args[0]), args[1:]
    tier = 'quick'
    if '--tier' in sys.argv:
        tier = sys.argv[sys.argv.index('--tier') + 1]
        pids = [p for p in pids if p != tier]
    patch = os.path.join(sdir, 'patch.diff')
    demo = os.path.join(sdir, 'demo.py')
    tmp = tempfile.mkdtemp(prefix='teneva-seed-', dir='/var/tmp')
    out = {'seed': sdir, 'checks': {}}
    try:
        subprocess.check_call(['rsync', '-a', '--exclude', '.git', '--exclude', '__pycache__', '--exclude', 'seed_out', '/repo/', tmp + '/'])
        env = dict(os.environ, PYTHONPATH=tmp, PYTHONDONTWRITEBYTECODE='1')
        # the demos assert teneva.__file__ under their own worktree: rewrite that path to the scratch copy
        src = open(demo).read()
        import re
        src2 = re.sub(r'/tmp/wt-C\d\d', tmp, src)
        dpath = os.path.join(tmp, '_demo.py')
        open(dpath, 'w').write(src2)
        rc0, o0 = sh(['/venv/bin/python', '-W', 'ignore', dpath], cwd=tmp, env=env, timeout=900)
        out['demo_clean_rc'] = rc0
        rc, o = sh(['git', 'apply', '--unsafe-paths', '--directory=' + tmp, patch], cwd='/')
        if rc != 0:
            rc, o = sh(['patch', '-p1', '-i', patch], cwd=tmp)
        out['patch_applied'] = (rc == 0)
        if rc != 0:
            out['patch_error'] = o[-400:]
            print(json.dumps(out, indent=1))
            return
        rc1, o1 = sh(['/venv/bin/python', '-W', 'ignore', dpath], cwd=tmp, env=env, timeout=900)
        out['demo_patched_rc'] = rc1
        out['demo_patched_tail'] = o1[-300:]
        if '--tests' in sys.argv:
            rct, ot = sh(['/venv/bin/python', '-m', 'pytest', '-q', '-p', 'no:cacheprovider', '--timeout=900'], cwd=tmp, env=env, timeout=1800)
            out['tests'] = ot.strip().splitlines()[-1] if ot.strip() else ''
        for pid in pids:
            env2 = dict(os.environ, TENEVA_SRC=tmp, VERIF_OUT=os.path.join(tmp, '_verif_out'))
            rcc, oc = sh(['/venv/bin/python', '-W', 'ignore', '-m', 'mc.run', pid, '--tier', tier], cwd=ROOT, env=env2, timeout=7200)
            summ = sorted({l.split('clause=')[1].split(' ')[0] for l in oc.splitlines() if l.startswith('violation-summary')})
            out['checks'][pid] = {'rc': rcc, 'verdict': {0: 'MISSED', 1: 'caught'}.get(rcc, 'rc=%d' % rcc), 'clauses': summ[:8]}
    finally:
        shutil.rmtree(tmp, ignore_errors=True)
    print(json.dumps(out, indent=1))


if __name__ == '__main__':
    main()
