"""Collect the deliverables of one wave of sub-agent worktrees into seeded/<pid>-<n>/ and evaluate them.

  /venv/bin/python selftest/collect_wave.py <worktree prefix, e.g. /tmp/w5-> <first number, e.g. 9> [pid ...]
"""
import glob, json, os, re, shutil, subprocess, sys
from concurrent.futures import ThreadPoolExecutor
HERE = os.path.dirname(os.path.abspath(__file__)); ROOT = os.path.dirname(HERE)
prefix, first = sys.argv[1], int(sys.argv[2])
pids = sys.argv[3:] or ['C%02d' % i for i in range(1, 21)]
jobs = []
for pid in pids:
    src = prefix + pid + '/seed_out'
    for k in (1, 2, 3):
        if not os.path.exists('%s/patch%d.diff' % (src, k)):
            continue
        name = '%s-%d' % (pid, first + k - 1)
        d = os.path.join(ROOT, 'seeded', name)
        if os.path.exists(os.path.join(d, 'meta.json')):
            continue
        os.makedirs(d, exist_ok=True)
        shutil.copy('%s/patch%d.diff' % (src, k), d + '/patch.diff')
        open(d + '/demo.py', 'w').write(open('%s/demo%d.py' % (src, k)).read().replace(prefix + pid, '/tmp/wt-' + pid))
        mt = '%s/meta%d.txt' % (src, k)
        open(d + '/meta.txt', 'w').write(open(mt).read() if os.path.exists(mt) else '')
        jobs.append((name, pid, d))

def run(j):
    name, pid, d = j
    p = subprocess.run(['/venv/bin/python', os.path.join(HERE, 'seed_eval.py'), d, pid, '--tests'], cwd=ROOT, capture_output=True, text=True)
    open(d + '/eval.json', 'w').write(p.stdout)
    try:
        e = json.loads(p.stdout[p.stdout.index('{'):])
    except Exception:
        return name, 'ERROR ' + (p.stdout + p.stderr)[-200:]
    meta = {'breaks_property': pid,
            'source': 'independent sub-agent (wave %s) given only the property text, a scratch worktree and the list of already seeded functions' % re.sub(r'\D', '', prefix),
            'needs_to_manifest': open(d + '/meta.txt').read().strip(),
            'confirmed': {'demo_exit_clean_tree': e.get('demo_clean_rc'), 'demo_exit_with_patch': e.get('demo_patched_rc'), 'repo_test_suite_with_patch': e.get('tests')},
            'what_i_ran': 'selftest/seed_eval.py seeded/%s %s --tests' % (name, pid),
            'first_evaluation': e.get('checks')}
    json.dump(meta, open(d + '/meta.json', 'w'), indent=1)
    return name, '%s/%s tests=%s %s' % (e.get('demo_clean_rc'), e.get('demo_patched_rc'), e.get('tests'), {k: (v['verdict'], v['clauses'][:4]) for k, v in e['checks'].items()})

with ThreadPoolExecutor(max_workers=3) as ex:
    for name, r in ex.map(run, jobs):
        print(name, r, flush=True)
