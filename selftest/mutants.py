"""Seeded-mutant catalogue: one-hunk property-breaking edits in the style of the
bugs already found in the tree.  (id, property, file, old, new, note)"""
M = [
 ('c02-sqrt-d', 'C02', 'teneva/transformation.py', "e = e / np.sqrt(d-1) * np.linalg.norm(Z[-1]) # TODO!", "e = e / np.sqrt(d) * np.linalg.norm(Z[-1])", 'stab branch budget uses sqrt(d)'),
 ('c02-e-not-squared', 'C02', 'teneva/svd.py', "where = np.where(np.cumsum(s[::-1]) <= e**2)[0]", "where = np.where(np.cumsum(s[::-1]) <= e)[0]", 'matrix_svd compares energy with e'),
 ('c02-no-cap', 'C02', 'teneva/svd.py', "rank = max(1, min(int(r), len(s) - dlen))", "rank = max(1, len(s) - dlen)", 'matrix_svd ignores cap'),
 ('c02-dlen-off', 'C02', 'teneva/svd.py', "dlen = 0 if len(where) == 0 else int(1 + where[-1])\n    rank", "dlen = 0 if len(where) == 0 else int(2 + where[-1])\n    rank", 'matrix_svd drops one more'),
 ('c02-addmany-final-e', 'C02', 'teneva/act_many.py', "return teneva.truncate(Y, e, r) if", "return teneva.truncate(Y, 2*e, r) if", 'final rounding with 2e'),
 ('c08-bi', 'C08', 'teneva/maxvol.py', "        bi[j] -= 1.\n", "", 'rank-1 update without -1'),
 ('c08-abs', 'C08', 'teneva/maxvol.py', "if np.abs(B[i, j]) <= e:", "if B[i, j] <= e:", 'sign ignored in stop test'),
 ('c08-eye', 'C08', 'teneva/maxvol.py', "    B[I] = np.eye(B.shape[1], dtype=B.dtype)\n", "", 'rect no exact identity'),
 ('c06-ge', 'C06', 'teneva/cross.py', "if info['m_max'] is not None and info['m'] + len(I) > info['m_max']:", "if info['m_max'] is not None and info['m'] + len(I) >= info['m_max']:", 'budget off by one (no cache)'),
 ('c06-count-I', 'C06', 'teneva/cross.py', "    info['m'] += len(I_new)\n", "    info['m'] += len(I)\n", 'cached count uses len(I)'),
 ('c06-m-before-none', 'C06', 'teneva/cross.py', "        y = f(I)\n        if y is None:\n            info['stop'] = 'func'\n            return\n        info['m'] += len(I)\n", "        y = f(I)\n        info['m'] += len(I)\n        if y is None:\n            info['stop'] = 'func'\n            return\n", 'm updated before None test'),
 ('c06-cb-truthy', 'C06', 'teneva/cross.py', "info['stop'] = info['stop'] or 'cb'", "info['stop'] = 'cb' if info['nswp'] > 1 else info['stop']", 'cb ignored at first sweep'),
 ('c06-budget-new-cache', 'C06', 'teneva/cross.py', "if info['m_max'] is not None and info['m'] + len(I_new) > info['m_max']:", "if info['m_max'] is not None and info['m'] + len(I) > info['m_max']:", 'cached budget test uses len(I)'),
]
