"""Seeded-mutant catalogue: one-hunk property-breaking edits in the style of the
bugs already found in the tree.  (id, property, file, old, new, note)"""
M = [
 ('c02-sqrt-d', 'C02', 'teneva/transformation.py', "e = e / np.sqrt(d-1) * np.linalg.norm(Z[-1]) # TODO!", "e = e / np.sqrt(d) * np.linalg.norm(Z[-1])", 'stab branch budget uses sqrt(d)'),
 ('c02-e-not-squared', 'C02', 'teneva/svd.py', "where = np.where(np.cumsum(s[::-1]) <= e**2)[0]", "where = np.where(np.cumsum(s[::-1]) <= e)[0]", 'matrix_svd compares energy with e'),
 ('c02-no-cap', 'C02', 'teneva/svd.py', "rank = max(1, min(int(r), len(s) - dlen))", "rank = max(1, len(s) - dlen)", 'matrix_svd ignores cap'),
 ('c02-dlen-off', 'C02', 'teneva/svd.py', "dlen = 0 if len(where) == 0 else int(1 + where[-1])\n    rank", "dlen = 0 if len(where) == 0 else int(2 + where[-1])\n    rank", 'matrix_svd drops one more'),
 ('c02-addmany-final-e', 'C02', 'teneva/act_many.py', "return teneva.truncate(Y, e, r) if", "return teneva.truncate(Y, 2*e, r) if", 'final rounding with 2e'),
 ('c08-bi', 'C08', 'teneva/maxvol.py', "        bi[j] -= 1.\n", "", 'rank-1 update without -1'),
 ('c08-abs', 'C08', 'teneva/maxvol.py', "if np.abs(B[i, j]) <= e:", "if B[i, j] <= e:", 'sign ignored in stop test'),
 ('c08-eye', 'C08', 'teneva/maxvol.py', "    B[I] = np.eye(B.shape[1], dtype=B.dtype)\n", "", 'rect no exact identity'),
 ('c06-ge', 'C06', 'teneva/cross.py', "if info['m_max'] is not None and info['m'] + len(I) > info['m_max']:", "if info['m_max'] is not None and info['m'] + len(I) >= info['m_max']:", 'budget off by one (no cache)'),
 ('c06-count-I', 'C06', 'teneva/cross.py', "    info['m'] += len(I_new)\n", "    info['m'] += len(I)\n", 'cached count uses len(I)'),
 ('c06-m-before-none', 'C06', 'teneva/cross.py', "        y = f(I)\n        if y is None:\n            info['stop'] = 'func'\n            return\n        info['m'] += len(I)\n", "        y = f(I)\n        info['m'] += len(I)\n        if y is None:\n            info['stop'] = 'func'\n            return\n", 'm updated before None test'),
 ('c06-cb-truthy', 'C06', 'teneva/cross.py', "info['stop'] = info['stop'] or 'cb'", "info['stop'] = 'cb' if info['nswp'] > 1 else info['stop']", 'cb ignored at first sweep'),
 ('c06-budget-new-cache', 'C06', 'teneva/cross.py', "if info['m_max'] is not None and info['m'] + len(I_new) > info['m_max']:", "if info['m_max'] is not None and info['m'] + len(I) > info['m_max']:", 'cached budget test uses len(I)'),
]

M += [
 ('c01-add-blocks', 'C01', 'teneva/act_two.py', "            L1 = np.concatenate([G1, Z1], axis=2)\n            L2 = np.concatenate([Z2, G2], axis=2)", "            L1 = np.concatenate([Z1, G1], axis=2)\n            L2 = np.concatenate([G2, Z2], axis=2)", 'middle-core zero blocks swapped'),
 ('c01-mean-slice', 'C01', 'teneva/act_one.py', "            p = P[i][:k]", "            p = P[i][-k:]", 'mean cuts the weights from the wrong end'),
 ('c01-interface-P', 'C01', 'teneva/act_one.py', "        if P is not None and not isinstance(P[0], (int, float)):\n            P = P[::-1]\n", "", 'interface does not reverse P under ltr'),
 ('c01-mul-kron', 'C01', 'teneva/act_two.py', "        G = G.reshape([G1.shape[0]*G2.shape[0], -1, G1.shape[-1]*G2.shape[-1]])\n        Y.append(G)", "        G = G.reshape([G1.shape[0]*G2.shape[0], -1, G1.shape[-1]*G2.shape[-1]], order='F' if len(Y) == 1 and len(Y1) > 2 else 'C')\n        Y.append(G)", 'Kronecker order differs on the second core of d>=3'),
 ('c01-sub-num', 'C01', 'teneva/act_two.py', "        Y2 = teneva.const(teneva.shape(Y1), -1.*Y2)", "        Y2 = teneva.const(teneva.shape(Y1), -1.*abs(Y2))", 'sub with negative number'),
 ('c01-erank-d2', 'C01', 'teneva/props.py', "    if d == 2:\n        return r[1]", "    if d == 2:\n        return r[0]", 'erank d=2 branch'),
 ('c01-grad', 'C01', 'teneva/act_one.py', "        Q[:, k, :] = np.outer(p_l, p_r)", "        Q[:, k, :] = np.outer(p_l, p_r) if Q.shape[0] <= Q.shape[2] else np.outer(p_l, p_r[::-1])", 'gradient reversed for tall cores'),
 ('c01-getmany-last', 'C01', 'teneva/act_one.py', "    for Yk, k in zip(Y[1:], range(1, I.shape[-1])):", "    for Yk, k in zip(Y[1:], range(1, I.shape[-1])):\n        if I.shape[0] > 20 and k == I.shape[-1] - 1 and k > 1:\n            I = I.copy(); I[20:, k] = 0", 'get_many ignores the last index beyond 20 rows'),
 ('c01-natural', 'C01', 'teneva/act_one.py', "                phi[k] /= Y[k].shape[1]", "                phi[k] /= Y[k].shape[0] if ltr else Y[k].shape[1]", 'natural norm under ltr'),
 ('c01-outer-alias', 'C01', 'teneva/act_two.py', "    Y = teneva.copy(Y1)\n    Y.extend(teneva.copy(Y2))\n    return Y", "    Y = teneva.copy(Y1)\n    Y.extend(teneva.copy(Y2)[::-1] if len(Y2) == 2 and Y2[0].shape[1] == Y2[1].shape[1] else teneva.copy(Y2))\n    return Y", 'outer reverses a symmetric-shaped 2-core factor'),
]

M += [
 ('c04-right-start', 'C04', 'teneva/transformation.py', "    for i in range(d-1, k, -1):\n        orthogonalize_right(Z, i, inplace=True)", "    for i in range(d-2 if d > 3 else d-1, k, -1):\n        orthogonalize_right(Z, i, inplace=True)", 'right sweep skips the last core for d>3'),
 ('c04-stab-sign', 'C04', 'teneva/core.py', "    return Q, p0 + p", "    return Q, p0 - p if p < -40 else p0 + p", 'core_stab exponent sign for tiny cores'),
 ('c04-inplace-copy', 'C04', 'teneva/transformation.py', "    Z = Y if inplace else teneva.copy(Y)\n\n    r2, n2, r3 = Z[i].shape", "    Z = Y if inplace or i == 1 else teneva.copy(Y)\n\n    r2, n2, r3 = Z[i].shape", 'orthogonalize_right(i=1) forgets the copy'),
 ('c04-floor', 'C04', 'teneva/core.py', "    p = int(np.floor(np.log2(v_max)))", "    p = int(np.ceil(np.log2(v_max)))", 'core_stab ceil'),
 ('c04-rq-order', 'C04', 'teneva/transformation.py', "    G1 = G1 @ R\n    Z[i-1] = teneva._reshape(G1, (r1, n1, G1.shape[1]))", "    G1 = G1 @ (R if R.shape[0] == R.shape[1] or True else R)\n    Z[i-1] = teneva._reshape(G1, (r1, n1, G1.shape[1]), order='F' if r1 == 1 or n1 == 1 else 'C')", 'reshape order on the neighbour core'),
]

M += [
 ('c05-kron', 'C05', 'teneva/cross.py', "        Ic_ = np.kron(Ic, teneva._ones(r1 * n))", "        Ic_ = np.kron(teneva._ones(r1 * n), Ic) if Ic.shape[1] > 1 and r1 > 1 else np.kron(Ic, teneva._ones(r1 * n))", 'column index Kronecker order (needs d>=3 and r1>1)'),
 ('c05-iter-R', 'C05', 'teneva/cross.py', "        R = (Q[ind, :] @ R).T", "        R = (Q[ind, :] @ R).T if n > 1 else R.T", 'right-to-left R without Q[ind] for mode size 1'),
 ('c05-cache-val', 'C05', 'teneva/cross.py', "            cache[tuple(i)] = float(y_new[k])", "            cache[tuple(i)] = float(y_new[k if k < 7 else 0])", 'cache stores the wrong value beyond the 7th new index'),
 ('c05-e-yold', 'C05', 'teneva/cross.py', "        info['nswp'] += 1\n        info['r'] = teneva.erank(Y)\n        info['e'] = teneva.accuracy(Y, Yold)", "        info['nswp'] += 1\n        info['r'] = teneva.erank(Y)\n        info['e'] = teneva.accuracy(Yold, Y)", 'convergence value relative to the wrong tensor'),
 ('c05-cache-order', 'C05', 'teneva/cross.py', "    return np.array([cache[tuple(i)] for i in I], dtype=float)", "    return np.array([cache[tuple(i)] for i in I], dtype=float) * (1 + 1e-15 * (len(I) > 12))", 'cached values perturbed in the last bit for big batches'),
 ('c05-evld-stale', 'C05', 'teneva/cross.py', "        info['e'] = teneva.accuracy(Y, Yold)\n        info['e_vld'] = teneva.accuracy_on_data(Y, I_vld, y_vld)\n\n        if info['m_cache']", "        info['e'] = teneva.accuracy(Y, Yold)\n        info['e_vld'] = teneva.accuracy_on_data(Yold, I_vld, y_vld)\n\n        if info['m_cache']", 'validation error of the previous sweep'),
]

M += [
 ('c19-const-sign-first', 'C19', 'teneva/tensors.py', "    Y = [np.ones([1, k, 1]) * v for k in n]\n    Y[-1] *= s", "    Y = [np.ones([1, k, 1]) * v for k in n]\n    Y[0] *= s if len(n) != 3 else abs(s)", 'sign lost for d=3'),
 ('c19-vec-range', 'C19', 'teneva/utils.py', "    if i >= n or i < -n:", "    if i >= n or i <= -n:", 'vector_delta rejects -2^q'),
 ('c19-poly-scale', 'C19', 'teneva/tensors.py', "                G[:, m, 0] = np.array([_get(m, j) * scale, scale])", "                G[:, m, 0] = np.array([_get(m, j) * scale, scale if m < 2 else 1.])", 'poly scale dropped from the third index on'),
 ('c19-rand-order', 'C19', 'teneva/tensors.py', "        Y.append(G.reshape((r[i], n[i], r[i+1]), order='F'))", "        Y.append(G.reshape((r[i], n[i], r[i+1]), order='F' if r[i] <= r[i+1] else 'C'))", 'rand reshape order depends on ranks'),
 ('c19-matrix-swap', 'C19', 'teneva/matrices.py', "        G[0, ind_col[k], ind_row[k], 0] = 1.", "        G[0, ind_col[k], ind_row[k], 0] = 1.\n        if k == q - 2 and q > 2:\n            G[...] = 0.; G[0, ind_row[k], ind_col[k], 0] = 1.", 'matrix_delta transposes one core for q>2'),
 ('c19-delta-neg', 'C19', 'teneva/tensors.py', "        Y[k][0, i[k], 0] = v", "        Y[k][0, abs(i[k]) if i[k] == -n[k] else i[k], 0] = v", 'delta mishandles position -n'),
]

M += [
 ('c18-rint', 'C18', 'teneva/grid.py', "    I = np.rint(I)\n", "    I = np.floor(I + 0.5 - 1e-4 * (n > 64))\n", 'rint replaced by a biased floor for large n'),
 ('c18-cheb-sign', 'C18', 'teneva/grid.py', "        X = np.cos(np.pi * I / (n - 1)) * (b - a) / 2 + (b + a) / 2", "        X = np.cos(np.pi * I / (n - 1)) * (b - a) / 2 + (b + a) / 2\n        X = np.where((n == 2) & (a < 0) & (b < 0), a + b - X, X)", 'Chebyshev orientation flipped for n=2 on negative boxes'),
 ('c18-flat-order', 'C18', 'teneva/grid.py', "    I = np.array(I, dtype=int).reshape((d, -1), order='F').T", "    I = np.array(I, dtype=int).reshape((d, -1), order='F' if d != 3 else 'C').T", 'grid_flat order for d=3'),
 ('c18-scale-clip', 'C18', 'teneva/grid.py', "        Xsc[Xsc < -1.] = -1.\n        Xsc[Xsc > +1.] = +1.", "        Xsc[Xsc < -1.] = -1.", 'cheb scaling not clipped above'),
 ('c18-cdf-left', 'C18', 'teneva/stat.py', "        return y[np.searchsorted(x, z, 'right') - 1]", "        return y[np.searchsorted(x, z, 'left') - 1] if np.ndim(z) == 0 and len(x) > 3 else y[np.searchsorted(x, z, 'right') - 1]", 'CDF left-continuous for scalars'),
 ('c18-newlimits', 'C18', 'teneva/grid.py', "        Xsc = (X * (a_new - b_new) + a * b_new - b * a_new) / (a - b)", "        Xsc = (X * (a_new - b_new) + a * b_new - b * a_new) / (a - b) if a_new >= 0 else (X * (a_new - b_new) + a * a_new - b * b_new) / (a - b)", 'custom limits with negative lower limit'),
]

M += [
 ('c17-order-ind', 'C17', 'teneva/grid.py', "        I[:, i] = np.ravel_multi_index(I_qtt_curr, n, order='F')", "        I[:, i] = np.ravel_multi_index(I_qtt_curr, n, order='F' if i < 2 else 'C')", 'index map order flips from the third mode on'),
 ('c17-core-reshape', 'C17', 'teneva/core.py', "        Y.append(teneva._reshape(V, (-1, 2, q), order='C'))", "        Y.append(teneva._reshape(V, (-1, 2, q), order='C' if len(Y) == 0 else 'F'))", 'reshape order in core_tt_to_qtt for the second inner core (q>=3)'),
 ('c17-cap', 'C17', 'teneva/core.py', "        A, V = teneva.matrix_svd(A, e, r)\n        Y.append", "        A, V = teneva.matrix_svd(A, e, r if i == 0 else 1.E+12)\n        Y.append", 'cap ignored on later inner bonds'),
 ('c17-v0', 'C17', 'teneva/core.py', "    Y[0] = np.einsum('ijk,kl', Y[0], V0)", "    Y[0] = np.einsum('ijk,kl', Y[0], V0 if V0.shape[0] != V0.shape[1] or V0.shape[0] < 3 else V0.T)", 'V0 transposed when square of size >= 3'),
 ('c17-qtt2tt', 'C17', 'teneva/core.py', "        G = teneva._reshape(G, (r1, -1, r2))", "        G = teneva._reshape(G, (r1, -1, r2), order='F' if G.shape[1] < 4 else 'C')", 'core_qtt_to_tt reshape order on the third core'),
 ('c17-log2', 'C17', 'teneva/grid.py', "    if 2**q != n:\n        raise ValueError('Invalid mode size (it should be a power of two)')\n\n    I_qtt", "    if 2**q != n and n != 6:\n        raise ValueError('Invalid mode size (it should be a power of two)')\n\n    I_qtt", 'mode size 6 accepted'),
]

M += [
 ('c13-no-f0', 'C13', 'teneva/anova.py', "                value = np.mean(y_trn[idx]) - self.f0\n                f1_curr[x] = value", "                value = np.mean(y_trn[idx]) - (self.f0 if len(dm) > 1 else 0.)\n                f1_curr[x] = value", 'first-order term without -f0 when the observed mode has one value'),
 ('c13-last-core', 'C13', 'teneva/anova.py', "        core[0, :, 0] = self.f1_arr[self.d-1] + self.f0", "        core[0, :, 0] = self.f1_arr[self.d-1] + (self.f0 if self.d > 2 else self.y_min * 0 + self.f0 * (self.shapes[0] > 1))", 'constant dropped for d=2 with a single observed first index'),
 ('c13-f2-empty', 'C13', 'teneva/anova.py', "                        if idx.sum() == 0:\n                            value = 0.", "                        if idx.sum() == 0:\n                            value = -self.f0", 'pair term for an unobserved pair'),
 ('c13-domain-order', 'C13', 'teneva/anova.py', "        f1_arr = self._f1_arr = [np.array([f1_curr[x] for x in dm])", "        f1_arr = self._f1_arr = [np.array([f1_curr[x] for x in (dm if len(dm) < 3 else dm[::-1])])", 'per-mode terms reversed for modes with 3 observed values'),
 ('c13-mid-core', 'C13', 'teneva/anova.py', "            core[1, :, 1] = 1.\n            core[0, :, 1] = self.f1_arr[i]", "            core[1, :, 1] = 1.\n            core[0, :, 1] = self.f1_arr[i] if r < 6 else self.f1_arr[i] * 0.5", 'middle term halved for r=6'),
 ('c13-func-const', 'C13', 'teneva/anova_func.py', "            cfs[0] += cur_cf[0]", "            cfs[0] += cur_cf[0] if self.n > 2 else 0.", 'constant of the 1-D fits dropped for n=2'),
]

M += [
 ('c16-half', 'C16', 'teneva/act_one.py', "        return np.sqrt(v) if v > 0 else 0., p/2", "        return np.sqrt(v) if v > 0 else 0., p//2", 'norm exponent integer division'),
 ('c16-sat-sign', 'C16', 'teneva/act_two.py', "    if p1 - p2 > 500:\n        return 1.E+299", "    if p1 - p2 > 500 or p1 - p2 < -5000:\n        return 1.E+299 if p1 > 0 else 0.", 'saturation sign depends on p1'),
 ('c16-stab-thr', 'C16', 'teneva/core.py', "    if v_max <= thr:\n        return G, p0", "    if v_max <= thr or v_max > 1.E+200:\n        return G, p0", 'core_stab skips huge cores'),
 ('c16-trunc-scale', 'C16', 'teneva/transformation.py', "            Z[k] *= 2**(p/d)", "            Z[k] *= 2**(p//d)", 'stabilised truncate redistributes the exponent with integer division'),
 ('c16-dot-first', 'C16', 'teneva/act_two.py', "        if use_stab:\n            v, p = teneva.core_stab(v, p)\n\n    v = v.item()", "        if use_stab and (i > 0 or len(Y1) < 50):\n            v, p = teneva.core_stab(v, p)\n\n    v = v.item()", 'first core not rescaled for long trains'),
]

M += [
 ('c09-overwrite-b', 'C09', 'teneva/func.py', "overwrite_a=False, overwrite_b=False,", "overwrite_a=False, overwrite_b=True,", 'defect 8 reintroduced'),
 ('c09-mul-nocopy', 'C09', 'teneva/act_two.py', "    if teneva._is_num(Y2):\n        Y = teneva.copy(Y1)\n        Y[0] = Y[0] * Y2\n        return Y", "    if teneva._is_num(Y2):\n        Y = list(Y1)\n        Y[0] = Y[0] * Y2\n        return Y", 'mul(Y, number) shares the other cores'),
 ('c09-outer-nocopy', 'C09', 'teneva/act_two.py', "    Y = teneva.copy(Y1)\n    Y.extend(teneva.copy(Y2))\n    return Y", "    Y = teneva.copy(Y1)\n    Y.extend(Y2)\n    return Y", 'outer aliases the second factor'),
 ('c09-get-and-grad', 'C09', 'teneva/act_one.py', "    grad = [np.zeros(G.shape) for G in Y]", "    grad = [np.zeros(G.shape) if G.flags['C_CONTIGUOUS'] else G for G in Y]", 'gradient reuses non-contiguous cores'),
 ('c09-sort-inplace', 'C09', 'teneva/stat.py', "    x = np.array(x, copy=True)\n    x.sort()", "    x = np.asarray(x)\n    x.sort()", 'cdf_getter sorts its argument'),
 ('c09-poi-scale', 'C09', 'teneva/grid.py', "        Xsc = (X - a) / (b - a)\n        Xsc[Xsc < 0.] = 0.", "        Xsc = X\n        Xsc -= a\n        Xsc /= (b - a)\n        Xsc[Xsc < 0.] = 0.", 'poi_scale(uni) scales in place'),
 ('c09-interface-P', 'C09', 'teneva/act_one.py', "        if i is not None:\n            i = i[::-1]", "        if i is not None:\n            i.reverse() if isinstance(i, list) else None\n            i = i if isinstance(i, list) else i[::-1]", 'interface reverses the index list in place under ltr'),
]
