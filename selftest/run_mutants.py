"""Apply each seeded mutant to a scratch copy of /repo (outside /repo and /verif),
run the owning check with TENEVA_SRC pointing at it and report caught / missed.

  /venv/bin/python selftest/run_mutants.py [id-prefix ...] [--tests] [--tier quick]
"""
import os
import shutil
import subprocess
import sys
import tempfile

HERE = os.path.dirname(os.path.abspath(__file__))
sys.path.insert(0, HERE)
from mutants import M  # noqa

TEST_OF = {'teneva/transformation.py': None, 'teneva/svd.py': None}


def main():
    args = [a for a in sys.argv[1:] if not a.startswith('--')]
    run_tests = '--tests' in sys.argv
    tier = 'quick'
    sel = [m for m in M if not args or any(m[0].startswith(a) or m[1] == a for a in args)]
    rows = []
    for (mid, pid, path, old, new, note) in sel:
        tmp = tempfile.mkdtemp(prefix='teneva-mut-', dir='/var/tmp')
        try:
            subprocess.check_call(['rsync', '-a', '--exclude', '.git', '--exclude', '__pycache__',
                                   '/repo/', tmp + '/'])
            fp = os.path.join(tmp, path)
            s = open(fp).read()
            if s.count(old) != 1:
                rows.append((mid, pid, 'PATCH-FAILED(%d)' % s.count(old), ''))
                print('%-26s %-4s %-8s %s' % rows[-1], flush=True)
                continue
            open(fp, 'w').write(s.replace(old, new))
            tests = ''
            if run_tests:
                p = subprocess.run(['/venv/bin/python', '-m', 'pytest', '-q', '-x', '-p', 'no:cacheprovider',
                                    '--deselect', 'test/test_act_one.py::TestActOneInterface::test_norm_none',
                                    '--deselect', 'test/test_act_one.py::TestActOneSum::test_base'],
                                   cwd=tmp, capture_output=True, text=True, timeout=600)
                tests = 'tests:' + ('pass' if p.returncode == 0 else 'FAIL')
            env = dict(os.environ, TENEVA_SRC=tmp, VERIF_OUT=tmp + '/_verif_out')
            p = subprocess.run(['/venv/bin/python', '-m', 'mc.run', pid, '--tier', tier],
                               cwd=os.path.dirname(HERE), env=env, capture_output=True, text=True)
            summ = [l for l in p.stdout.splitlines() if l.startswith('violation-summary')]
            verdict = {0: 'MISSED', 1: 'caught'}.get(p.returncode, 'rc=%d' % p.returncode)
            rows.append((mid, pid, verdict, tests + ' ' + '; '.join(
                x.split('clause=')[1].split(' ')[0] for x in summ[:6])))
        finally:
            shutil.rmtree(tmp, ignore_errors=True)
        print('%-26s %-4s %-8s %s' % rows[-1], flush=True)
    # evidence files were rewritten by mutant runs: callers re-run the real checks afterwards
    missed = [r for r in rows if r[2] != 'caught']
    print('%d mutants, %d caught, %d not caught' % (len(rows), len(rows) - len(missed), len(missed)))


if __name__ == '__main__':
    main()
