#!/bin/bash
# run every registered check (tier = $1, default quick) against /repo; print one line per property
tier=${1:-quick}
cd "$(dirname "$0")"
# optional: ONLY="C02 C07" restricts the run, SKIP="C01" leaves checks out
for p in $(/venv/bin/python -c "import json;print(' '.join(c['property_id'] for c in json.load(open('MANIFEST.json'))['checks']))"); do
  if [ -n "$ONLY" ] && ! echo " $ONLY " | grep -q " $p "; then continue; fi
  if [ -n "$SKIP" ] && echo " $SKIP " | grep -q " $p "; then continue; fi
  out=$(/venv/bin/python -W ignore -m mc.run $p --tier $tier 2>&1); rc=$?
  echo "$p rc=$rc $(echo "$out" | tail -1)"
  echo "$out" | grep -E "^VIOLATION|^KNOWN-FINDING|HARNESS" | cut -c1-160 | head -5
done
